"""per-property manifest entries (tools/mkmanifest.py renders MANIFEST.json from this)"""
TB = ("Trusted: the explicit-state reference model (bbmc/refmodel.py; attractors cross-checked two ways and against AEON by "
      "bin/setup), CPython, and clingo/AEON/networkx as components of the implementation under test. Claims exactly the "
      "enumerated universes/bounds recorded in the evidence file, nothing beyond.")
CHECKS = {
    "C01": {
        "text": "Bounded exhaustive model checking over inputs: every network of completely enumerated universes (all 1- and "
                "2-variable networks, all 9 348 canonical 3-variable networks over <=2-input functions, the reference-defined "
                "catalogues of all 561 multi-attractor, 461 all-NFVS multi-attractor and a seed-selected complete shard of the "
                "137 369 motif-avoidant and 896 525 all-NFVS 3-variable networks, kernel networks and their disjoint unions, "
                "4-variable products, input-conditioned networks) x all six complete strategies (plus DFS followed by an unrefined "
                "candidates query on every node) is executed on the real code "
                "and the reported seeds are compared with the terminal SCCs of the explicit state-transition graph.",
        "ref": "DESIGN.md §3 C01", "note": TB,
        "technique": "explicit-state model checking: exhaustive input-universe enumeration against an explicit STG reference model",
    },
    "C02": {
        "text": "Every network of the enumerated universes is fully expanded on the real code by BFS, DFS and two node-by-node "
                "orders (one with the percolated Petri net pre-computed, so both branches of the single-node expansion are "
                "driven); the resulting node set, successor sets, per-edge motif sets and leaves are compared with the "
                "succession diagram computed from its definition over all 3^n subspaces of the explicit state space.",
        "ref": "DESIGN.md §3 C02", "note": TB,
        "technique": "explicit-state model checking: exhaustive input-universe enumeration against a definitional reference diagram",
    },
    "C03": {
        "text": "Network x strategy/option grid (15 complete variants), x every size limit at which 7 partial strategies stop "
                "followed by both skip completions, x every diagram state reachable by plain-alphabet call histories up to a "
                "depth bound followed by each resumable strategy: all executed on the real code, minimal trap spaces compared "
                "as a multiset with the reference model's.",
        "ref": "DESIGN.md §3 C03", "note": TB,
        "technique": "explicit-state model checking: exhaustive enumeration of inputs, option grids, limit values and bounded call histories",
    },
    "C09": {
        "text": "Every call of a completely enumerated argument grid (problem kind x time direction x every enclosing subspace x "
                "avoid lists x source-variable lists x solution limits; both solver entry points; network as BooleanNetwork and as "
                "Petri net) on every 1- and 2-variable network and a reduced grid on 3-variable universes is executed and "
                "compared, as a multiset, with the answer enumerated by the reference model over all 3^n subspaces / 2^n states.",
        "ref": "DESIGN.md §3 C09", "note": TB,
        "technique": "explicit-state model checking: exhaustive enumeration of inputs and call arguments against a reference enumeration",
    },
    "C10": {
        "text": "For every network of the small universes every state x variable x direction, every one of the 3^n subspaces "
                "(restriction, chained restriction) and every reference trap space (network percolation with and without "
                "constant removal) is enumerated and transition enabledness / update values compared with the truth tables; "
                "for all 210 repository models the local state space of every update function with <=12 (quick) / <=16 "
                "(thorough) inputs is enumerated completely against an independent expression evaluator.",
        "ref": "DESIGN.md §3 C10", "note": TB + " Functions with more inputs than the bound are counted as not covered in the evidence.",
        "technique": "explicit-state model checking: exhaustive state/subspace enumeration per network and per update function",
    },
    "C11": {
        "text": "Every subspace (3^n, consistent or conflicting, trap or not) of every network in the universes (incl. all 54 872 "
                "three-variable networks over <=2-input functions) is percolated on the real code by both variants and the "
                "results, the conflict sets, the single-node LDOIs and the single-driver sets for every target are compared "
                "with the reference least fixed point.",
        "ref": "DESIGN.md §3 C11", "note": TB,
        "technique": "explicit-state model checking: exhaustive network x subspace enumeration against a reference least fixed point",
    },
    "C04": {
        "text": "Explicit-state search whose transition function is the real SuccessionDiagram API: BFS over the plain expansion "
                "alphabet (all start nodes, limit values, targets) to closure (true reachability of canonical diagram states) on "
                "the kernel and 2-variable networks with small diagrams, and all histories up to a depth bound on larger ones and "
                "on 3-variable universes; in every reached state every expanded node must have exactly the reference successors "
                "and motifs, and appending expand_bfs() must give the fresh full diagram.",
        "ref": "DESIGN.md §3 C04", "note": TB + " Canonical state = every field biobalm reads (ids, edge order, caches).",
        "technique": "explicit-state model checking of API-call histories (BFS with canonical state hashing, closure or depth bound) on the real implementation",
    },
    "C20": {
        "text": "The same history exploration (plain alphabet to closure / depth 2, full alphabet incl. skip, scc, block shortcuts, "
                "reclaim, pickle at depth 2) evaluates depth = longest root path, contiguous ids and find_node on all 3^n spaces "
                "in every reached state, is_subgraph / is_isomorphic on all ordered pairs of reached states, and parses summary() "
                "after build() back against the reference attractors on the input universes. Plus the depth-bookkeeping harness: the real _ensure_edge/_update_node_depth on every small DAG shape x both child orders x every order of single-node expansions, as an explicit state graph over (expanded set, depth vector).",
        "ref": "DESIGN.md §3 C20", "note": TB,
        "technique": "explicit-state model checking of API-call histories plus exhaustive input-universe enumeration",
    },
    "C14": {
        "text": "Explicit-state search over the real API with the full alphabet (attractor queries on any node incl. stubs, every "
                "expansion strategy, skipping, source shortcuts, SCC attachment, reclaim, pickle, build): all histories up to "
                "depth 2 (quick) / 3 (thorough) plus all query.structural.query histories on kernel and 2-variable networks, and "
                "all [stub query].[structural op] histories on 3-variable shards; in every reached state every node's cached "
                "seeds/candidates/sets are judged against the reference attractors of the node minus its current successors.",
        "ref": "DESIGN.md §3 C14", "note": TB + " Defaults except minimum_simulation_budget=1 to keep replays cheap.",
        "technique": "explicit-state model checking of API-call histories (depth-bounded BFS with canonical state hashing) on the real implementation",
    },
    "C15": {
        "level": "fault_enumeration",
        "text": "Deviation-bounded exhaustive enumeration on the real code: for every (network, prior diagram state, operation) every "
                "size/level/stack limit value, every small value of the configured resource limits, and every clingo ground/solve "
                "call index at which a RuntimeError is injected. After each stop the diagram is judged (no stub with successors, "
                "expanded nodes complete against the reference diagram or the uninterrupted run, cache invariant), the operation "
                "is re-run relaxed and compared with the uninterrupted run, and True/False returns are checked against their contract.",
        "ref": "DESIGN.md §3 C15", "note": TB + " Solver failures are modelled as RuntimeError raised at the clingo.Control seam; single deviations per execution.",
        "technique": "fault and limit enumeration: every crash point / limit value of every operation on every explored diagram state, with a differential resume oracle",
    },
    "C05": {
        "text": "Network x partial expansion (7 strategies x every size limit; every state of plain-alphabet histories up to depth 2) x "
                "completion route (skip_remaining; skip_to_minimal on every subset of stubs; minimal-space expansion with skip_ignored) x "
                "seed-query order (ascending, descending, all permutations on small diagrams), all executed on the real code; every "
                "reference attractor must be reported, every seed must lie in an attractor inside its node, and without motif-avoidant "
                "attractors each attractor exactly once. Universes include every union of two kernel networks (thorough; a shard "
                "plus the three overlap-with-motif-avoidant unions behind defect D12 in quick).",
        "ref": "DESIGN.md §3 C05", "note": TB, "technique": "explicit-state model checking: exhaustive enumeration of inputs, partial-expansion histories, completion routes and query orders",
    },
    "C06": {
        "text": "For every network x non-empty target x strategy x driver bound x forbidden set x skip_feedforward setting, on the fresh "
                "diagram and on every diagram state reachable by one call of the full alphabet, every intervention reported successful "
                "is validated: reference LDOI of each override contains the motif, and an explicit-state search of the overridden "
                "network shows every attractor reachable from the previous trap space has the motif's values; final space vs target. Plus a synthetic-diagram harness: successions_to_target on a real SuccessionDiagram object carrying every small DAG shape x every assignment of node ids x every target; every returned succession must end in a node without hot descendants.",
        "ref": "DESIGN.md §3 C06", "note": TB, "technique": "explicit-state model checking: exhaustive argument/history enumeration with explicit-state validation of every reported override",
    },
    "C07": {
        "text": "On fresh diagrams, for every network x every non-empty target x strategy x driver bound {None,0,1,2,3} x forbidden subset x "
                "successful_only, the returned successions are compared as a multiset with the reference target-directed expansion and "
                "every step's override list with the reference inclusion-minimal driver sets (reference LDOI). A multiplexed-input universe (one source selecting between two 3-variable networks) is run with a reduced grid so that the same motif is met in contexts with different drivers.",
        "ref": "DESIGN.md §3 C07", "note": TB, "technique": "explicit-state model checking: exhaustive input/argument enumeration against a reference control model",
    },
    "C08": {
        "text": "Every (network, diagram state in {stub, fully expanded, skip-completed}, node, 4 option combinations, configuration of a "
                "grid of small values of the four numeric settings) candidate computation is executed: it must raise RuntimeError or "
                "return full states inside the node space that hit every reference attractor of the node outside its successors.",
        "ref": "DESIGN.md §3 C08", "note": TB, "technique": "explicit-state model checking: exhaustive enumeration of inputs, nodes, options and configuration values",
    },
    "C12": {
        "text": "For every network, base state (stub root, every node of the full diagram, skip-completed diagram) and every prefix over "
                "{cand x4, seeds, sets, reclaim, pickle} up to a depth bound, the attractor sets are enumerated as explicit state sets "
                "and compared with the reference attractor of the corresponding seed; the symbolic fallback (direct and forced through a "
                "candidate limit) must describe the same attractors.",
        "ref": "DESIGN.md §3 C12", "note": TB, "technique": "explicit-state model checking: exhaustive enumeration of inputs, nodes and query histories; VertexSets expanded to explicit state sets",
    },
    "C13": {
        "text": "Work is measured as executed loop back-edges per loop site inside biobalm (sys.monitoring) and bounded by a closed-form "
                "budget of the state-space and diagram size; every public operation on every input of the universes and on every "
                "diagram state reachable by one call of the full alphabet must finish below the budget (else it is aborted from inside "
                "the callback and reported with the loop's file:line); soft and hard timeouts count as violations. Also: the smallest values of the numeric configuration fields on stub queries and bfs+seeds, free-input networks, a hand-made 4-variable cycle+fixed-point shape under all 24 variable orders (SHAPES4), and name sanitization on every ordered triple of an awkward-name pool.",
        "ref": "DESIGN.md §3 C13", "note": TB + " Bounded termination only: no ranking-function proof beyond the enumerated space.",
        "technique": "explicit-state model checking with a work monitor: exhaustive enumeration of inputs and call histories, loop back-edge budgets per loop site",
    },
    "C16": {
        "text": "Differential explicit-state check: at every diagram state reachable by one call (quick) / two calls (thorough) of the full "
                "alphabet a pickle round trip or reclaim_node_data is inserted, followed by every operation of a representative alphabet "
                "and a closing sequence (bfs, seeds on all nodes, control); return values and the observable diagram after every step "
                "must equal those of the run without the insertion. Universes include free-input variants. Small networks are explored a second time with tiny max_motifs_per_node / attractor_candidates_limit values (limit errors are compared like any other result).",
        "ref": "DESIGN.md §3 C16", "note": TB, "technique": "explicit-state model checking: exhaustive insertion points over explored API histories with a differential oracle",
    },
    "C17": {
        "text": "The full presentation-transformation group on all 2-variable networks (3 name schemes incl. a sort-order reversal x 4 "
                "negation patterns x 4 formula styles x 3 file formats) and its generators on kernel / 3-variable universes are "
                "enumerated; the library's full diagram, minimal trap spaces and attractors on each presentation are mapped back through "
                "the transformation and compared with the reference model of the original network; name sanitization is checked on all "
                "ordered tuples of a pool of 8 awkward names (every collision pattern). Presentations also include declaring the variables through the API in every order, names that contain the Petri-net place prefixes, and identity variables written as free inputs (with the source-SCC strategy).",
        "ref": "DESIGN.md §3 C17", "note": TB + " AEON's parsers/writers are trusted to implement their formats.",
        "technique": "explicit-state model checking: exhaustive enumeration of inputs x presentation transformations against a presentation-independent reference model",
    },
    "C18": {
        "text": "All unions of two canonical 2-variable networks and of kernel networks (attractors and minimal trap spaces vs pairwise "
                "products, by three strategies), every input valuation of all input-conditioned networks (sub-diagram below the "
                "valuation's node vs the diagram of the network with constant inputs, attractors by three strategies), and a "
                "differential run of build() against AEON's symbolic attractor enumeration on every repository model up to a size / "
                "time cap (unfinished models are listed, never counted as passed). Input-conditioned universes include multiplexed networks in which the input switches a motif-avoidant attractor on and off; unions are also expanded by the attractor-seed and block strategies.",
        "ref": "DESIGN.md §3 C18", "note": TB + " Part (c) is a differential check on a fixed corpus and trusts AEON's Attractors.attractors.",
        "technique": "explicit-state model checking: exhaustive enumeration of composed input universes, plus a differential corpus run against an independent symbolic explorer",
    },
    "C19": {
        "text": "Environment enumeration: one interpreter process per PYTHONHASHSEED value 0..255 (768 thorough) dumps every (network, "
                "strategy) of a batch; the observed iteration order of each variable-name set is recorded and every permutation of every "
                "<=4-element name set must have been observed (so hash-order nondeterminism is exhausted, not sampled); in-process: "
                "second run and run after every entry of a preceding-call menu. All dumps of one (network, strategy) must be byte-identical. Further process histories: the batch in reverse order and every network alone in a fresh process; an exception is a dump value; a preceding unrelated call that fails is itself a violation.",
        "ref": "DESIGN.md §3 C19", "note": TB,
        "technique": "explicit-state model checking of the environment: exhaustive enumeration of hash seeds (until all set iteration orders are covered) and preceding-call sequences",
    },
}
NOT_CLAIMED = {f"C{i:02d}": "not claimed yet: check under construction (see DESIGN.md §9 for the build order)" for i in range(1, 21)}
