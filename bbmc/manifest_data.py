"""per-property manifest entries (tools/mkmanifest.py renders MANIFEST.json from this)"""
TB = ("Trusted: the explicit-state reference model (bbmc/refmodel.py; attractors cross-checked two ways and against AEON by "
      "bin/setup), CPython, and clingo/AEON/networkx as components of the implementation under test. Claims exactly the "
      "enumerated universes/bounds recorded in the evidence file, nothing beyond.")
CHECKS = {
    "C01": {
        "text": "Bounded exhaustive model checking over inputs: every network of completely enumerated universes (all 1- and "
                "2-variable networks, all 9 348 canonical 3-variable networks over <=2-input functions, the reference-defined "
                "catalogues of all 561 multi-attractor, 461 all-NFVS multi-attractor and a seed-selected complete shard of the "
                "137 369 motif-avoidant and 896 525 all-NFVS 3-variable networks, kernel networks and their disjoint unions, "
                "4-variable products, input-conditioned networks) x all six complete strategies is executed on the real code "
                "and the reported seeds are compared with the terminal SCCs of the explicit state-transition graph.",
        "ref": "DESIGN.md §3 C01", "note": TB,
        "technique": "explicit-state model checking: exhaustive input-universe enumeration against an explicit STG reference model",
    },
    "C02": {
        "text": "Every network of the enumerated universes is fully expanded on the real code by BFS, DFS and two node-by-node "
                "orders (one with the percolated Petri net pre-computed, so both branches of the single-node expansion are "
                "driven); the resulting node set, successor sets, per-edge motif sets and leaves are compared with the "
                "succession diagram computed from its definition over all 3^n subspaces of the explicit state space.",
        "ref": "DESIGN.md §3 C02", "note": TB,
        "technique": "explicit-state model checking: exhaustive input-universe enumeration against a definitional reference diagram",
    },
    "C03": {
        "text": "Network x strategy/option grid (15 complete variants), x every size limit at which 7 partial strategies stop "
                "followed by both skip completions, x every diagram state reachable by plain-alphabet call histories up to a "
                "depth bound followed by each resumable strategy: all executed on the real code, minimal trap spaces compared "
                "as a multiset with the reference model's.",
        "ref": "DESIGN.md §3 C03", "note": TB,
        "technique": "explicit-state model checking: exhaustive enumeration of inputs, option grids, limit values and bounded call histories",
    },
}
NOT_CLAIMED = {f"C{i:02d}": "not claimed yet: check under construction (see DESIGN.md §9 for the build order)" for i in range(1, 21)}
