"""per-property manifest entries (tools/mkmanifest.py renders MANIFEST.json from this)"""
TB = ("Trusted: the explicit-state reference model (bbmc/refmodel.py; attractors cross-checked two ways and against AEON by "
      "bin/setup), CPython, and clingo/AEON/networkx as components of the implementation under test. Claims exactly the "
      "enumerated universes/bounds recorded in the evidence file, nothing beyond.")
CHECKS = {
    "C01": {
        "text": "Bounded exhaustive model checking over inputs: every network of completely enumerated universes (all 1- and "
                "2-variable networks, all 9 348 canonical 3-variable networks over <=2-input functions, the reference-defined "
                "catalogues of all 561 multi-attractor, 461 all-NFVS multi-attractor and a seed-selected complete shard of the "
                "137 369 motif-avoidant and 896 525 all-NFVS 3-variable networks, kernel networks and their disjoint unions, "
                "4-variable products, input-conditioned networks) x all six complete strategies is executed on the real code "
                "and the reported seeds are compared with the terminal SCCs of the explicit state-transition graph.",
        "ref": "DESIGN.md §3 C01", "note": TB,
        "technique": "explicit-state model checking: exhaustive input-universe enumeration against an explicit STG reference model",
    },
}
NOT_CLAIMED = {f"C{i:02d}": "not claimed yet: check under construction (see DESIGN.md §9 for the build order)" for i in range(1, 21)}
