"""Driver for the implementation under test: imports biobalm from the tree under test, applies operations of the
history alphabet through the public API, and produces canonical dumps of a diagram."""
from __future__ import annotations

import os
import pickle
import sys

REPO = os.environ.get("VERIF_REPO", "/repo")
if REPO not in sys.path:
    sys.path.insert(0, REPO)

import biobalm  # noqa: E402
from biobalm import SuccessionDiagram  # noqa: E402
from biodivine_aeon import BooleanNetwork  # noqa: E402

assert os.path.realpath(biobalm.__file__).startswith(os.path.realpath(REPO)), (biobalm.__file__, REPO)

from .refmodel import key  # noqa: E402


def bn_api(net, names=None):
    """build the network through AEON's API, keeping the declaration order of the variables (text parsers sort by name)"""
    import itertools
    from biodivine_aeon import UpdateFunction
    names = list(names or net.names)
    bn = BooleanNetwork(names)
    vs = bn.variables()
    for i in range(net.n):
        if i in net.inputs:
            continue
        for j in range(net.n):
            if net.depends(i, j):
                bn.add_regulation({"source": vs[j], "target": vs[i], "essential": True, "sign": None})
    for i in range(net.n):
        if i in net.inputs:
            continue
        t = net.tables[i]
        if t == net.FULL or t == 0:
            bn.set_update_function(vs[i], UpdateFunction.mk_const(bn, t != 0))
            continue
        sup = [j for j in range(net.n) if net.depends(i, j)]
        terms = []
        for vals in itertools.product([0, 1], repeat=len(sup)):
            st = 0
            for j, v in zip(sup, vals):
                if v:
                    st |= 1 << j
            if net.f(i, st):
                lits = [UpdateFunction.mk_var(bn, vs[j]) if v else UpdateFunction.mk_not(UpdateFunction.mk_var(bn, vs[j])) for j, v in zip(sup, vals)]
                terms.append(UpdateFunction.mk_conjunction(bn, lits) if len(lits) > 1 else lits[0])
        bn.set_update_function(vs[i], UpdateFunction.mk_disjunction(bn, terms) if len(terms) > 1 else terms[0])
    return bn


def bn_of(net):
    if getattr(net, "api_order", False):
        return bn_api(net)
    bn = BooleanNetwork.from_bnet(net.bnet())
    for i in sorted(net.inputs):  # free inputs: no update function, no regulators
        v = bn.find_variable(net.names[i])
        bn.set_update_function(v, None)
        bn.remove_regulation(v, v)
    return bn


def new_sd(net, config=None):
    cfg = SuccessionDiagram.default_config()
    if config:
        cfg.update(config)
    return SuccessionDiagram(bn_of(net), cfg)


# ---------------------------------------------------------------------------
# operation alphabet: ops are plain tuples (picklable, printable, replayable)
# ---------------------------------------------------------------------------
def apply(sd, op):
    """returns (sd, return value); exceptions propagate"""
    k = op[0]
    if k == "succ":
        return sd, sorted(sd.node_successors(op[1], compute=True))
    if k == "seeds":
        return sd, sd.node_attractor_seeds(op[1], compute=True, symbolic_fallback=(op[2] if len(op) > 2 else False))
    if k == "sets":
        return sd, sd.node_attractor_sets(op[1], compute=True)
    if k == "cand":
        return sd, sd.node_attractor_candidates(
            op[1], compute=True, greedy_asp_minification=op[2], simulation_minification=op[3])
    if k == "skip":
        return sd, sd.skip_to_minimal(op[1])
    if k == "bfs":
        return sd, sd.expand_bfs(op[1], op[2], op[3])
    if k == "dfs":
        return sd, sd.expand_dfs(op[1], op[2], op[3])
    if k == "min":
        return sd, sd.expand_minimal_spaces(op[1], op[2], op[3])
    if k == "aseeds":
        return sd, sd.expand_attractor_seeds(op[1])
    if k == "target":
        return sd, sd.expand_to_target(dict(op[1]), op[2])
    if k == "block":
        return sd, sd.expand_block(find_motif_avoidant_attractors=op[1], size_limit=op[2],
                                   optimize_source_nodes=op[3], exact_attractor_detection=(op[4] if len(op) > 4 else False))
    if k == "scc":
        return sd, sd.expand_scc(op[1])
    if k == "skiprem":
        return sd, sd.skip_remaining()
    if k == "reclaim":
        return sd, sd.reclaim_node_data()
    if k == "pickle":
        return pickle.loads(pickle.dumps(sd)), None
    if k == "build":
        return sd, sd.build()
    if k == "pnet":  # make the percolated Petri net of a node known (exercises the cached-PN expansion path)
        return sd, len(sd.node_percolated_petri_net(op[1], compute=True).nodes)
    if k == "control":
        from biobalm.control import succession_control
        ivs = succession_control(sd, dict(op[1]), strategy=op[2], max_drivers_per_succession_node=op[3],
                                 forbidden_drivers=set(op[4]), successful_only=op[5],
                                 skip_feedforward_successions=(op[6] if len(op) > 6 else False))
        return sd, ivs
    if k == "allseeds":
        return sd, {i: sd.node_attractor_seeds(i, compute=True) for i in sd.node_ids()}
    if k == "expseeds":
        return sd, sd.expanded_attractor_seeds()
    raise ValueError(op)


def replay(net, hist, config=None):
    sd = new_sd(net, config)
    for op in hist:
        sd, _ = apply(sd, op)
    return sd


# ---------------------------------------------------------------------------
# canonical dump
# ---------------------------------------------------------------------------
def vset_states(net, vs):
    """explicit state set (bitmask over ref states) of an AEON VertexSet over the full network"""
    m = 0
    for v in vs.items():
        d = v.to_named_dict() if hasattr(v, "to_named_dict") else None
        if d is None:
            d = {str(k): val for k, val in v.to_dict().items()}
        s = 0
        for nm, val in d.items():
            if val:
                s |= 1 << net.idx[nm]
        m |= 1 << s
    return m


def states_of(net, lst):
    return [net.state_of(d) if len(d) == net.n else ("partial", key(d)) for d in lst]


def node_dump(net, sd, i, with_cache=True):
    d = sd.node_data(i)
    out = {
        "space": key(d["space"]),
        "expanded": bool(d["expanded"]),
        "skipped": bool(d["skipped"]),
        "depth": d["depth"],
        "parent": d["parent_node"],
    }
    if with_cache:
        out["cand"] = None if d["attractor_candidates"] is None else tuple(states_of(net, d["attractor_candidates"]))
        out["seeds"] = None if d["attractor_seeds"] is None else tuple(states_of(net, d["attractor_seeds"]))
        out["sets"] = None if d["attractor_sets"] is None else tuple(vset_states(net, v) for v in d["attractor_sets"])
        out["pn"] = d["percolated_petri_net"] is not None
        out["bn"] = d["percolated_network"] is not None
        out["nfvs"] = None if d["percolated_nfvs"] is None else tuple(d["percolated_nfvs"])
    return out


def edges_dump(sd, ordered=True):
    out = []
    for (a, b, dat) in sd.dag.edges(data=True):
        out.append((a, b, key(dat["motif"]), tuple(key(m) for m in dat["all_motifs"])))
    return tuple(out) if ordered else tuple(sorted(out))


def dump(net, sd, with_cache=True):
    """canonical state: every field any biobalm code path reads"""
    nodes = tuple(tuple(sorted(node_dump(net, sd, i, with_cache).items(), key=lambda kv: kv[0])) for i in sd.node_ids())
    return (nodes, edges_dump(sd), None if sd.nfvs is None else tuple(sd.nfvs),
            tuple(sorted((k, v) for k, v in sd.config.items())), tuple(sorted(sd.node_indices.items())))


def structure(sd):
    """id-independent structure: {space: (expanded, skipped, {child space: frozenset(motifs)})}"""
    out = {}
    for i in sd.node_ids():
        d = sd.node_data(i)
        ch = {}
        for j in sd.dag.successors(i):
            e = sd.dag.edges[i, j]
            ch[key(sd.node_data(j)["space"])] = tuple(sorted(key(m) for m in e["all_motifs"]))
        out[key(d["space"])] = (bool(d["expanded"]), bool(d["skipped"]), tuple(sorted(ch.items())))
    return out


def module_state():
    import biodivine_aeon
    from biobalm import petri_net_translation
    return (petri_net_translation.DEBUG, biodivine_aeon.LOG_LEVEL)
