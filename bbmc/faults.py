"""Fault injection at the clingo seam: every ground()/solve() call of an operation is a potential crash point."""
from __future__ import annotations

import clingo


class InjectedFault(RuntimeError):
    pass


class Injector:
    """counts Control.ground / Control.solve calls; raises RuntimeError at call number fail_at (0-based)"""

    def __init__(self):
        self.count = 0
        self.fail_at = None
        self.active = False
        self._orig = None

    def install(self):
        if self._orig is not None:
            return
        C = clingo.Control
        self._orig = (C.ground, C.solve)
        inj = self
        og, os_ = self._orig

        def ground(ctl, *a, **kw):
            inj._tick("ground")
            return og(ctl, *a, **kw)

        def solve(ctl, *a, **kw):
            inj._tick("solve")
            return os_(ctl, *a, **kw)

        C.ground = ground
        C.solve = solve

    def uninstall(self):
        if self._orig is None:
            return
        clingo.Control.ground, clingo.Control.solve = self._orig
        self._orig = None

    def _tick(self, what):
        if not self.active:
            return
        k = self.count
        self.count += 1
        if self.fail_at is not None and k == self.fail_at:
            self.fail_at = None  # one-shot
            raise RuntimeError(f"injected solver failure at {what} call #{k}")

    def arm(self, fail_at=None):
        self.count = 0
        self.fail_at = fail_at
        self.active = True

    def disarm(self):
        self.active = False
        self.fail_at = None
        return self.count


INJ = Injector()
