"""Reference model for succession control (C06/C07): target-directed expansion of the reference diagram, successions,
minimal driver sets by reference LDOI, and explicit-state validation of overrides."""
from __future__ import annotations

import itertools

from .refmodel import key, sub, consistent, bits


def ref_successions(net, target):
    """list of successions (lists of reduced stable motifs), as a multiset"""
    nodes, edges, root = net.sd
    mins = net.min_traps
    expanded = set()
    seen = {root}
    level = [root]
    while level:
        nxt = []
        for k in level:
            sp = nodes[k]
            if not consistent(sp, target):
                continue
            if sub(sp, target) and sp != target:
                continue
            expanded.add(k)
            for (a, b) in edges:
                if a == k and b not in seen:
                    seen.add(b)
                    nxt.append(b)
        level = nxt
    E = {(a, b): m for (a, b), m in edges.items() if a in expanded}

    def ok(k):
        sp = nodes[k]
        return all(sub(m, target) for m in mins if sub(m, sp))

    ends = []
    for k in seen:
        if not ok(k):
            continue
        preds = [a for (a, b) in E if b == k]
        if not any(not ok(p) for p in preds):
            continue
        ends.append(k)
    found_valid = any(ok(k) for k in seen)
    succs = []

    def paths(cur, goal, vis):
        if cur == goal:
            yield []
            return
        for (a, b) in E:
            if a == cur and b not in vis:
                for p in paths(b, goal, vis | {b}):
                    yield [(a, b)] + p

    for e in ends:
        for p in paths(root, e, {root}):
            lists = [[{k: v for k, v in m.items() if k not in nodes[a]} for m in E[(a, b)]] for (a, b) in p]
            for combo in itertools.product(*lists):
                succs.append(list(combo))
    if found_valid and not succs:
        succs = [[]]
    return succs


def ref_drivers(net, motif, assume, strategy, maxd, forbidden):
    inner = {k: v for k, v in motif.items() if k not in assume}
    pool = sorted((set(inner) if strategy == "internal" else set(net.names)) - set(forbidden))
    if maxd is None:
        maxd = len(inner)
    res = []
    minimal = []
    for size in range(maxd + 1):
        for Vs in itertools.combinations(pool, size):
            if any(set(m) <= set(Vs) for m in minimal):
                continue
            works = []
            vals_iter = [tuple(inner[v] for v in Vs)] if strategy == "internal" else itertools.product([0, 1], repeat=size)
            for vals in vals_iter:
                d = dict(zip(Vs, vals))
                sp = dict(d)
                sp.update(assume)
                l = net.percolate(sp)
                if all(l.get(k) == v for k, v in motif.items()):
                    works.append(d)
            if works:
                minimal.append(Vs)
                res += works
    return res


def override_forces(net, D, T, motif):
    """explicit-state: in the network with f_v := d_v (v in D), every attractor reachable from the trap space T has the
    motif's values in all of its states. Returns None if fine, else a witness state."""
    ov = net.override(D)
    R = ov.fwd(net.mask_of(T))
    mm = net.mask_of(motif)
    for a in ov.attractors:
        if (a & ~R) == 0 and (a & ~mm):
            return next(bits(a & ~mm))
    return None


def canon_succ(L):
    return sorted(tuple(key(m) for m in s) for s in L)


def canon_ctrl(L):
    return sorted(key(d) for d in L)
