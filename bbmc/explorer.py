"""Explicit-state history explorer: breadth-first search whose transition function is the real SuccessionDiagram API.

A state is identified with a history reaching it (live diagrams hold AEON/clingo objects and pickling is itself under
test, so states are rebuilt by replaying the history on a fresh diagram); states are de-duplicated by the canonical dump
of drv.dump, which contains every field a biobalm code path reads."""
from __future__ import annotations

from .drv import new_sd, apply, dump, replay
from .refmodel import key


# ---------------------------------------------------------------------------
# alphabets
# ---------------------------------------------------------------------------
def targets_of(net, mode="nodes"):
    """target spaces for expand_to_target / control"""
    if mode == "all":
        return [sp for sp, _ in net.spaces if sp]
    nodes, _, _ = net.sd
    out = {k: dict(k) for k in nodes if k}
    for nm in net.names:
        for v in (0, 1):
            out[((nm, v),)] = {nm: v}
    return list(out.values())


def plain_ops(net, sd, limits="few", targets="nodes", start_nodes="all"):
    """the plain expansion alphabet (C04): calls after which every expanded node must be ref-faithful"""
    ids = list(sd.node_ids())
    nfull = len(net.sd[0])
    if limits == "all":
        sizes = [None] + list(range(1, nfull + 2))
        levels = [None, 0, 1, 2]
    elif limits == "few":
        sizes = [None, 2]
        levels = [None, 0, 1]
    else:
        sizes = [None]
        levels = [None]
    starts = ids if start_nodes == "all" else [0]
    for n in ids:
        yield ("succ", n)
    for n in starts:
        for lv in levels:
            for sl in sizes:
                yield ("bfs", n, lv, sl)
                yield ("dfs", n, lv, sl)
        for sl in sizes:
            yield ("min", n, sl, False)
    for sl in sizes:
        yield ("aseeds", sl)
        for maa in (True, False):
            yield ("block", maa, sl, False)
    if targets:
        for t in targets_of(net, targets):
            for sl in sizes:
                yield ("target", key(t), sl)


def query_ops(net, sd):
    for n in sd.node_ids():
        yield ("seeds", n)
        yield ("sets", n)
        yield ("cand", n, True, True)
        yield ("cand", n, False, False)
        yield ("cand", n, True, False)
        yield ("cand", n, False, True)


def full_ops(net, sd, sizes=(None, 2)):
    """C14 alphabet: queries + every structural operation"""
    ids = list(sd.node_ids())
    yield from query_ops(net, sd)
    for n in ids:
        yield ("succ", n)
        yield ("skip", n)
        yield ("bfs", n, None, None)
        yield ("dfs", n, None, None)
        yield ("min", n, None, False)
        yield ("min", n, None, True)
        yield ("pnet", n)
    for s in sizes:
        yield ("bfs", 0, 0, s)
        yield ("dfs", 0, 1, s)
        yield ("aseeds", s)
        for m in (True, False):
            for o in (True, False):
                yield ("block", m, s, o)
    yield ("block", True, None, True, True)
    yield ("scc", True)
    yield ("scc", False)
    yield ("skiprem",)
    yield ("reclaim",)
    yield ("pickle",)
    yield ("build",)
    for t in targets_of(net, "nodes"):
        yield ("target", key(t), None)


# ---------------------------------------------------------------------------
# search
# ---------------------------------------------------------------------------
class Explorer:
    def __init__(self, net, ops_fn, invariant_fn=None, config=None, canon=None, on_error=None, max_states=None):
        self.net, self.ops_fn, self.invariant_fn, self.config = net, ops_fn, invariant_fn, config
        self.canon = canon or (lambda sd: dump(net, sd))
        self.states = {}  # canon -> shortest history
        self.transitions = 0
        self.violations = []  # (oracle, detail, history)
        self.errors = []  # (history, exception text): ops that raised
        self.max_states = max_states
        self.capped = False
        self.on_error = on_error

    def build(self, hist):
        return replay(self.net, hist, self.config)

    def run(self, depth=None, roots=((),)):
        """BFS to closure (depth None) or to the given depth. Returns list of reached histories (one per state)."""
        frontier = []
        for r in roots:
            sd = self.build(r)
            k = self.canon(sd)
            if k not in self.states:
                self.states[k] = tuple(r)
                frontier.append(tuple(r))
                self._check(sd, tuple(r), None, None)
        level = 0
        while frontier and (depth is None or level < depth):
            nxt = []
            for h in frontier:
                base = self.build(h)
                ops = list(self.ops_fn(self.net, base))
                for op in ops:
                    self.transitions += 1
                    sd = self.build(h)
                    try:
                        sd, ret = apply(sd, op)
                    except Exception as e:  # noqa
                        self.errors.append((h + (op,), f"{type(e).__name__}: {str(e)[:200]}"))
                        if self.on_error:
                            self.on_error(self, sd, h + (op,), e)
                        continue
                    self._check(sd, h + (op,), op, ret)
                    k = self.canon(sd)
                    if k not in self.states:
                        self.states[k] = h + (op,)
                        nxt.append(h + (op,))
                        if self.max_states and len(self.states) >= self.max_states:
                            self.capped = True
                            return list(self.states.values())
            frontier = nxt
            level += 1
        return list(self.states.values())

    def _check(self, sd, hist, op, ret):
        if self.invariant_fn is None:
            return
        for o, d in self.invariant_fn(self.net, sd, hist, op, ret):
            self.violations.append((o, d, hist))
