"""helpers shared by check modules"""
from __future__ import annotations

from ..runner import case_timeout, CaseTimeout  # noqa
from .. import universe as U
from ..refmodel import key, sub
from ..drv import new_sd, apply
from ..inv import fmt_state

COMPLETE_STRATEGIES = {
    "build": ("build",),
    "block": ("block", True, None, True, False),
    "bfs": ("bfs", None, None, None),
    "dfs": ("dfs", None, None, None),
    "scc": ("scc", True),
    "aseeds": ("aseeds", None),
}


def V(oracle, case, detail="", site=None):
    return {"oracle": oracle, "case": case, "detail": detail, "site": site}


def net_label(net):
    return repr(net)[:200]


def new_result():
    return {"evals": 0, "states": 0, "transitions": 0, "traces": 0, "nontrivial": set(), "outcomes": set(),
            "samples": [], "hangs": [], "violations": [], "counters": {}, "caps": []}


def count(res, k, n=1):
    res["counters"][k] = res["counters"].get(k, 0) + n


def quick_universes_basic(seed, tier):
    """(name, [specs]) lists shared by the input-enumeration checks"""
    out = []
    out.append(("U1", [("idx", 1, i) for i in range(4)]))
    out.append(("U2", [("idx", 2, i) for i in range(256)]))
    return out
