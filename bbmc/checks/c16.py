"""C16 — serialization and memory reclamation are transparent (DESIGN §3 C16)."""
from __future__ import annotations

from .common import *  # noqa
from .. import universe as U
from ..explorer import Explorer, full_ops, targets_of
from ..drv import replay as replay_hist, vset_states, edges_dump
from ..inv import own_attractors
from . import c04

ID = "C16"
LEVEL = "model_checking"
CONFIG = {"minimum_simulation_budget": 1}
# a second pass with small resource limits: limit errors are observable results too and must not depend on what was reclaimed
CONFIG_LIMITS = {"minimum_simulation_budget": 1, "max_motifs_per_node": 2, "attractor_candidates_limit": 3}


def observable(net, sd):
    """everything the property calls observable: ids, spaces, flags, depths, edges with motifs, known attractors"""
    nodes = []
    for i in sd.node_ids():
        d = sd.node_data(i)
        seeds = None if d["attractor_seeds"] is None else tuple(net.attractor_of(net.state_of(s)) if len(s) == net.n else -1 for s in d["attractor_seeds"])
        sets = None if d["attractor_sets"] is None else tuple(vset_states(net, v) for v in d["attractor_sets"])
        nodes.append((i, key(d["space"]), bool(d["expanded"]), bool(d["skipped"]), d["depth"], seeds, sets))
    return (tuple(nodes), tuple(sorted(edges_dump(sd))))


def retval(net, sd, op, ret):
    k = op[0]
    if k in ("seeds",):
        return tuple(net.attractor_of(net.state_of(s)) if len(s) == net.n else -1 for s in ret)
    if k == "sets":
        return tuple(vset_states(net, v) for v in ret)
    if k == "cand":
        # candidates may legitimately be replaced by seeds after reclamation: compared through the covering oracle only
        cs = 0
        for x in ret:
            if len(x) == net.n:
                cs |= 1 << net.state_of(x)
        own = own_attractors(net, sd, op[1])
        return ("covers", all(a & cs for a in own) or bool(sd.node_data(op[1])["skipped"]))
    if k == "control":
        return tuple((tuple(key(m) for m in iv.succession), tuple(tuple(sorted(key(c) for c in step)) for step in iv.control), iv.successful) for iv in ret)
    if k == "allseeds":
        return tuple((i, tuple(net.attractor_of(net.state_of(s)) if len(s) == net.n else -1 for s in v)) for i, v in sorted(ret.items()))
    if k in ("pickle", "reclaim", "pnet"):
        return None
    return ret


def closing(net):
    ops = [("bfs", None, None, None), ("allseeds",)]
    ts = targets_of(net, "nodes")
    mins = [t for t in ts if any(key(t) == key(m) for m in net.min_traps)]
    for t in (mins[:2] + ts[-1:]):
        ops.append(("control", key(t), "internal", None, (), False))
    if mins:
        ops.append(("control", key(mins[0]), "all", 1, (), False))
    return ops


def run_trace(net, hist, marks, config=None):
    """execute hist; returns list of (retval, observable) for the positions in marks (indices into hist), or ('raised', text)"""
    sd = new_sd(net, config or CONFIG)
    out = []
    for i, op in enumerate(hist):
        try:
            sd, ret = apply(sd, op)
        except Exception as e:
            out.append(("raised", f"{type(e).__name__}: {str(e)[:80]}"))
            if i in marks:
                pass
            return out, sd
        if i in marks:
            out.append((retval(net, sd, op, ret), observable(net, sd)))
    return out, sd


def rest_ops(net, sd):
    ids = list(sd.node_ids())
    for n in ids:
        yield ("seeds", n)
        yield ("sets", n)
        yield ("cand", n, True, True)
        yield ("cand", n, False, False)
        yield ("succ", n)
        yield ("skip", n)
    yield ("bfs", 0, 0, None)
    yield ("dfs", 0, 1, 2)
    yield ("min", 0, None, True)
    yield ("aseeds", None)
    yield ("block", True, None, True)
    yield ("block", False, 2, False)
    yield ("scc", True)
    yield ("scc", False)
    yield ("skiprem",)
    yield ("build",)
    ts = targets_of(net, "nodes")
    if ts:
        yield ("target", key(ts[0]), None)
        yield ("control", key(ts[0]), "internal", None, (), True)


def plan(tier, seed):
    K = U.kernel()
    U2 = U.U2c_indices() if tier == "quick" else list(range(256))
    d = 1 if tier == "quick" else 2
    nets = [("k", k) for k, n in K.items() if n.n <= (4 if tier == "quick" else 5) and len(n.sd[0]) <= (7 if tier == "quick" else 9)]
    nets += [("idx", 2, i) for i in U2 if c04.sd_size(("idx", 2, i)) >= (3 if tier == "quick" else 1)]
    f3 = [("idx", 3, i) for i in U.shard(U.F3_indices(True), seed, 128 if tier == "quick" else 16)] + \
         [("idx", 3, i) for i in U.shard(U.catalogue("multi"), seed, 16 if tier == "quick" else 2)] + \
         [("idx", 3, i) for i in U.shard(U.catalogue("maa"), seed, 2048 if tier == "quick" else 256)]
    from ..refmodel import net_from_index
    u2f = []
    for i in range(256):
        for v in U.with_free_inputs(net_from_index(2, i)):
            u2f.append(("fi", 2, i, sorted(v.inputs)))
    UNSORTED = {2: ["z", "b"], 3: ["z", "b", "a"], 4: ["z", "b", "y", "a"], 5: ["z", "b", "y", "a", "m"]}
    api = [("api", ("k", k), UNSORTED[n.n]) for k, n in K.items() if n.n in UNSORTED and len(n.sd[0]) >= 2 and n.n <= 4]
    api += [("api", ("idx", 2, i), UNSORTED[2]) for i in U2 if c04.sd_size(("idx", 2, i)) >= 3]
    units = [("hist", [s], 1 if len(U.resolve(s).sd[0]) <= 4 else 0) for s in api]
    units += [("hist+limits" if (U.resolve(s).n <= 3 and c04.sd_size(s) >= 3) else "hist", [s], d if (tier == "quick" or c04.sd_size(s) <= 3) else 1) for s in nets] + [("hist", ch, 0) for ch in U.chunks(f3, 4)] + [("hist", ch, 1 if tier != "quick" else 0) for ch in U.chunks(u2f, 3)]
    big = [("k", k) for k, n in K.items() if n.n > 4] if tier == "quick" else []
    units += [("hist", [s], 0) for s in big]
    overlap = [("u", ("k", a), ("k", b)) for a, b in (("depth_overlap", "maa3"), ("depth_overlap", "maa_16555679"), ("depth_15986426", "maa_16555679"))]
    # a motif-avoidant attractor next to two independent switches: sibling trap spaces that overlap and both contain it (7 variables)
    overlap += [("u", ("u", ("idx", 3, 8974833), ("k", "bistable")), ("k", "bistable"))]
    overlap += [("u", ("idx", 3, i), ("k", "bistable")) for i in U.shard(U.catalogue("maa"), seed, 16384 if tier == "quick" else 2048)]
    units += [("skiphist", [s], 0) for s in overlap]
    units.sort(key=lambda u: (u[0] != "skiphist", -u[2]))
    return {
        "units": units, "universes": {"K + U2 (history states)": len(nets), "overlapping skip nodes x motif-avoidant attractor (skip-completed states)": len(overlap), "F3c/MULTI3/MAA3 shards (fresh state)": len(f3), "K(n>4) fresh": len(big), "API-declared networks with unsorted variable order": len(api), "U2f (free-input variants, incl. inputs that regulate nothing)": len(u2f)},
        "bounds": {"insertion points": f"every diagram state reachable by <= {d} call(s) of the full alphabet (K, U2) or the fresh diagram; for the "
                                       "overlap x MAA unions: every state [bfs|attractor-seed expansion with size limit in {2, 3, half, two thirds}] . skip_remaining . "
                                       "[seeds of one non-minimal node], continued by seeds of each skip node and the closing sequence",
                   "inserted": "pickle round trip | reclaim_node_data",
                   "continuation": "each operation of a representative alphabet (queries on every node, succ/skip per node, bfs, dfs, "
                                   "minimal+skip, attractor-seed, block (2), scc (2), skip_remaining, build, target, control), then the "
                                   "closing sequence bfs(); seeds on all nodes; control (3-4 targets, both strategies)"},
        "rule": "differential: return values (seeds/sets as attractor identities in order, candidates through the covering oracle, "
                "interventions exactly, booleans) and the observable diagram (ids, spaces, flags, depths, edges, motifs, known "
                "attractors) after every continuation step must equal those of the run without the insertion; non-trivial = "
                "distinct (network, state) with some cached attractor data or percolated data at the insertion point",
        "assumptions": ["configuration: defaults except minimum_simulation_budget=1; networks with <=3 variables and >=3 diagram nodes are explored a second time with max_motifs_per_node=2 and attractor_candidates_limit=3 (limit errors are compared like any other result)"],
        "unit_timeout": 3000,
    }


def skip_states(net, config):
    """states for the 'skiphist' units: a partial expansion completed with skip nodes, then one node queried.
    (The empty result of a queried node is what skip nodes later rely on; seeded change C16-w2-2.)"""
    out = []
    full = len(net.sd[0])
    limits = sorted({2, 3, max(2, full // 2), max(2, (2 * full) // 3)})
    for L in limits:
        for p in (("bfs", None, None, L), ("aseeds", L)):
            pre = (p, ("skiprem",))
            sd = replay_hist(net, pre, config)
            if not any(sd.node_data(i)["skipped"] for i in sd.node_ids()):
                continue
            out.append(pre)
            for n in sd.node_ids():
                if not sd.node_is_minimal(n):
                    out.append(pre + (("seeds", n),))
    return out


def explore_net(net, spec, depth, res, config=None, skiphist=False):
    config = config or CONFIG
    vio = []
    if skiphist:
        states = skip_states(net, config)
        res["states"] += len(states)
    elif depth:
        ex = Explorer(net, lambda n, s: full_ops(n, s), None, config=config, max_states=300 if depth < 2 else 120)
        states = ex.run(depth=depth)
        if ex.capped:
            res["caps"].append({"net": repr(net)[:80], "cap": "max_states"})
        res["states"] += len(ex.states)
        res["transitions"] += ex.transitions
    else:
        states = [()]
        res["states"] += 1
    clos = closing(net)
    for h in states:
        base = replay_hist(net, h, config)
        if any(base.node_data(i)["attractor_seeds"] is not None or base.node_data(i)["attractor_candidates"] is not None
               or base.node_data(i)["percolated_petri_net"] is not None or base.node_data(i)["percolated_network"] is not None for i in base.node_ids()):
            res["nontrivial"].add((repr(spec), h))
        if skiphist:
            conts = [()] + [(("seeds", n),) for n in base.node_ids() if base.node_data(n)["skipped"]]
        else:
            conts = [()] + [(op,) for op in rest_ops(net, base)]
        for cont in conts:
            tail = list(cont) + clos
            ref_hist = list(h) + tail
            marks = set(range(len(h), len(ref_hist)))
            ref_trace, _ = run_trace(net, ref_hist, marks, config)
            for X in (("pickle",), ("reclaim",)):
                var_hist = list(h) + [X] + tail
                vmarks = set(range(len(h) + 1, len(var_hist)))
                res["evals"] += 1
                res["transitions"] += len(var_hist)
                var_trace, _ = run_trace(net, var_hist, vmarks, config)
                if var_trace != ref_trace:
                    # first difference
                    j = next((j for j in range(min(len(ref_trace), len(var_trace))) if ref_trace[j] != var_trace[j]), min(len(ref_trace), len(var_trace)))
                    what = "return-value" if j < len(ref_trace) and j < len(var_trace) and ref_trace[j][0] != var_trace[j][0] else "diagram-state"
                    opj = tail[j] if j < len(tail) else None
                    vio.append(V(f"{X[0]}-changes-{what}", {"net": list(spec), "history": [list(x) for x in h], "insert": X[0], "cont": [list(x) for x in cont],
                                                            "limits": config is not CONFIG},
                                 f"{net!r}: after {h} insert {X[0]} then {cont}: first difference at step {j} ({opj}): "
                                 f"{str(var_trace[j])[:300] if j < len(var_trace) else 'missing'} vs {str(ref_trace[j])[:300] if j < len(ref_trace) else 'missing'}",
                                 site=f"{X[0]}:{opj[0] if opj else 'end'}"))
    res["traces"] = res["evals"]
    return vio


def run_unit(unit):
    kind, specs, depth = unit
    res = new_result()
    for spec in specs:
        net = U.resolve(spec)
        try:
            with case_timeout(2400):
                vio = explore_net(net, spec, depth, res, skiphist=(kind == "skiphist"))
                if kind == "hist+limits":
                    vio += explore_net(net, spec, depth, res, CONFIG_LIMITS)
        except CaseTimeout:
            res["hangs"].append({"case": {"net": list(spec)}, "why": "exceeded 2400 s"})
            res["caps"].append({"net": list(spec), "cap": "time"})
            continue
        best = {}
        for v in vio:
            k = (v["oracle"], v["site"])
            if k not in best or len(str(v["case"])) < len(str(best[k]["case"])):
                best[k] = v
        res["violations"] += list(best.values())
        if len(res["samples"]) < 2:
            res["samples"].append({"net": net.bnet(), "state_depth": depth})
    return res


def _t(o):
    return tuple(tuple(map(tuple, x)) if isinstance(x, list) and x and isinstance(x[0], list) else (tuple(x) if isinstance(x, list) else x) for x in o)


def replay(case):
    net = U.resolve(case["net"])
    h = [_t(o) for o in case["history"]]
    cont = [_t(o) for o in case["cont"]]
    X = (case["insert"],)
    tail = cont + closing(net)
    cfg = CONFIG_LIMITS if case.get("limits") else CONFIG
    try:
        with case_timeout(300):
            ref_hist = h + tail
            ref_trace, _ = run_trace(net, ref_hist, set(range(len(h), len(ref_hist))), cfg)
            var_hist = h + [X] + tail
            var_trace, _ = run_trace(net, var_hist, set(range(len(h) + 1, len(var_hist))), cfg)
    except CaseTimeout:
        return [V("terminates", case, "hang")]
    if var_trace != ref_trace:
        j = next((j for j in range(min(len(ref_trace), len(var_trace))) if ref_trace[j] != var_trace[j]), min(len(ref_trace), len(var_trace)))
        what = "return-value" if j < len(ref_trace) and j < len(var_trace) and ref_trace[j][0] != var_trace[j][0] else "diagram-state"
        return [V(f"{X[0]}-changes-{what}", case, f"step {j}")]
    return []
