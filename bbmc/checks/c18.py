"""C18 — results compose across independent and input-conditioned sub-networks (DESIGN §3 C18)."""
from __future__ import annotations

import itertools
from .common import *  # noqa
from .. import universe as U
from ..refmodel import Net, union
from ..drv import structure

ID = "C18"
LEVEL = "model_checking"


def plan(tier, seed):
    units, unis = [], {}
    pairs = U.P4_pairs(True) if tier == "quick" else U.P4_pairs(False)
    if tier == "quick":
        pairs = list(pairs)
    unis["P4 (unions of two 2-variable networks)" + (" canonical pairs" if tier == "quick" else " all ordered pairs")] = len(pairs)
    for ch in U.chunks(pairs, 150):
        units.append(("union", [("p4", a, b) for a, b in ch]))
    ks = sorted(U.kernel_small(3))
    kk = [("kk", a, b) for a in ks for b in ks if a <= b]
    unis["K x K unions"] = len(kk)
    for ch in U.chunks(kk, 6):
        units.append(("union", ch))
    if tier != "quick":
        mu = [("mu", i, j) for i in U.catalogue("multi") for j in range(4)]
        unis["MULTI3 x U1"] = len(mu)
        for ch in U.chunks(mu, 40):
            units.append(("union", ch))
    i3 = list(range(1444)) if tier != "quick" else U.shard(list(range(1444)), seed, 2)
    unis["I3 input-conditioned" + (" shard 1/2" if tier == "quick" else "")] = len(i3)
    for ch in U.chunks(i3, 60):
        units.append(("inputs", [("i3", i) for i in ch]))
    # multiplexed inputs: one source s selects between two 3-variable networks (f_i = s ? N1.f_i : N0.f_i), so a
    # motif-avoidant attractor can exist under one valuation of the input and not under the other
    n0s = [16555679, 0, 8974576]  # an MAA network, the all-false network, A=C B=C C=A&B
    n1s = U.shard(U.catalogue("maa"), seed, 1024 if tier == "quick" else 64) + U.shard(U.catalogue("multi"), seed, 16 if tier == "quick" else 1)
    mux = [("mux", a, b) for a in n0s for b in n1s]
    unis["MUX(s; N0, N1) input-conditioned 4-variable networks"] = len(mux)
    for ch in U.chunks(mux, 12):
        units.append(("inputs", ch))
    ksrc = [("k", k) for k, n in U.kernel().items() if n.sources]
    unis["K with source variables"] = len(ksrc)
    units.append(("inputs", ksrc))
    models = U.bbm_models()
    unis["BBM models"] = len(models)
    cap = 60 if tier == "quick" else 300
    maxvars = 60 if tier == "quick" else 400
    for m in models:
        units.append(("bbm", [m], cap, maxvars))
    return {
        "units": units, "universes": unis,
        "bounds": {"unions": "build / scc / bfs on N1 (+) N2 vs pairwise products of the parts' minimal trap spaces and attractors",
                   "inputs": "every valuation of the source variables: sub-diagram below the valuation's node of the free-input bfs "
                             "diagram vs bfs diagram of the network with the sources replaced by constants; attractors by build/scc/block too",
                   "bbm": f"build() seeds vs AEON's symbolic attractor enumeration, models with <= {maxvars} variables, cap {cap} s per model; "
                          "models not finished are listed as inconclusive, never counted as passed"},
        "rule": "exhaustive over the listed composed universes; the BBM part is a differential check on a fixed corpus; non-trivial = "
                "distinct composed network whose parts both have >= 2 attractors / distinct (network, input valuation) / model",
        "assumptions": ["(c) trusts AEON's Attractors.attractors as an independent symbolic exhaustive state-space exploration"],
        "unit_timeout": 400 if tier == "quick" else 1200,
    }


def parts_of(spec):
    if spec[0] == "p4":
        from ..refmodel import net_from_index
        return net_from_index(2, spec[1], ["A", "B"]), net_from_index(2, spec[2], ["C", "D"])
    if spec[0] == "kk":
        a, b = U.kernel()[spec[1]], U.kernel()[spec[2]]
        b = Net([nm + "_2" for nm in b.names], b.tables, b.inputs)
        return a, b
    if spec[0] == "mu":
        from ..refmodel import net_from_index
        return net_from_index(3, spec[1]), net_from_index(1, spec[2], ["Z"])
    raise ValueError(spec)


def lib_results(net, strat):
    sd = new_sd(net)
    if strat == "build":
        sd.build()
    elif strat == "scc":
        sd.expand_scc()
    elif strat == "aseeds":
        sd.expand_attractor_seeds()
    elif strat == "block_plain":
        sd.expand_block(optimize_source_nodes=False)
    else:
        sd.expand_bfs()
    seeds = [s for v in sd.expanded_attractor_seeds().values() for s in v]
    mins = sorted(key(sd.node_data(i)["space"]) for i in sd.minimal_trap_spaces())
    return seeds, mins


def check_union(spec):
    out = []
    n1, n2 = parts_of(spec)
    un = union(n1, n2, n2.names)
    s1, m1 = lib_results(n1, "build")
    s2, m2 = lib_results(n2, "build")
    exp_mins = sorted(key({**dict(a), **dict(b)}) for a in m1 for b in m2)
    a1 = sorted(n1.attractor_of(n1.state_of(s)) for s in s1)
    a2 = sorted(n2.attractor_of(n2.state_of(s)) for s in s2)
    if a1 != sorted(n1.attractors) or a2 != sorted(n2.attractors):
        out.append(("part-attractors-wrong", "a part's own attractors differ from the reference"))
    for strat in ("build", "scc", "bfs", "aseeds", "block_plain"):
        su, mu = lib_results(un, strat)
        if mu != exp_mins:
            out.append(("union-minimal-traps-not-product", f"{strat}: got {mu} expected {exp_mins}"))
        pairs = []
        for s in su:
            p1 = n1.attractor_of(n1.state_of({k: v for k, v in s.items() if k in n1.idx}))
            p2 = n2.attractor_of(n2.state_of({k: v for k, v in s.items() if k in n2.idx}))
            pairs.append((p1, p2))
        exp_pairs = sorted((x, y) for x in a1 for y in a2)
        if sorted(pairs, key=str) != sorted(exp_pairs, key=str):
            out.append(("union-attractors-not-product", f"{strat}: {len(pairs)} seeds, expected {len(exp_pairs)} products"))
        # and the union's seeds really are attractor states of the union (reference model of the union)
        hits = [un.attractor_of(un.state_of(s)) for s in su]
        if None in hits or sorted(hits) != sorted(un.attractors):
            out.append(("union-attractors-differ-from-reference", f"{strat}"))
    return out, (len(a1), len(a2))


def const_net(net, val):
    tabs = list(net.tables)
    for nm, v in val.items():
        tabs[net.idx[nm]] = net.FULL if v else 0
    return Net(net.names, tabs)


def below(sd, node):
    import networkx as nx
    keep = {node} | set(nx.descendants(sd.dag, node))
    st = structure(sd)
    ks = {key(sd.node_data(i)["space"]) for i in keep}
    return {k: v for k, v in st.items() if k in ks}


def mux_net(a, b):
    from ..refmodel import net_from_index
    n0, n1 = net_from_index(3, a), net_from_index(3, b)
    names = ["A", "B", "C", "S"]
    tabs = []
    for i in range(3):
        t = 0
        for s4 in range(16):
            src = n1 if (s4 >> 3) & 1 else n0
            if src.f(i, s4 & 7):
                t |= 1 << s4
        tabs.append(t)
    ident = 0
    for s4 in range(16):
        if (s4 >> 3) & 1:
            ident |= 1 << s4
    tabs.append(ident)
    return Net(names, tabs)


def check_inputs(spec):
    out = []
    net = mux_net(spec[1], spec[2]) if spec[0] == "mux" else U.resolve(spec)
    src = net.sources
    if not src:
        return out, 0
    free = new_sd(net)
    free.expand_bfs()
    cnt = 0
    for vals in itertools.product([0, 1], repeat=len(src)):
        val = dict(zip(src, vals))
        cnt += 1
        cn = const_net(net, val)
        csd = new_sd(cn)
        csd.expand_bfs()
        node = free.find_node(net.percolate(val))
        if node is None:
            out.append(("valuation-node-missing", f"{val}"))
            continue
        if key(free.node_data(node)["space"]) != key(csd.node_data(0)["space"]):
            out.append(("valuation-root-differs", f"{val}: {free.node_data(node)['space']} vs {csd.node_data(0)['space']}"))
            continue
        if below(free, node) != structure(csd):
            out.append(("conditioned-subdiagram-differs", f"{val}: {sorted(below(free, node))} vs {sorted(structure(csd))}"))
        # attractors: free-input network restricted to the valuation vs constant network, by three strategies
        vm = net.mask_of(val)
        exp = sorted(a for a in net.attractors if (a & ~vm) == 0)
        for strat in ("build", "scc", "bfs", "aseeds"):
            sf, _ = lib_results(net, strat)
            got_f = sorted(net.attractor_of(net.state_of(s)) for s in sf if all(s[k] == v for k, v in val.items()))
            sc, _ = lib_results(cn, strat)
            got_c = sorted(cn.attractor_of(cn.state_of(s)) or -1 for s in sc)
            if got_f != exp:
                out.append(("free-input-attractors-under-valuation-wrong", f"{strat} {val}"))
            if got_c != exp:
                out.append(("constant-input-attractors-differ", f"{strat} {val}: {len(got_c)} vs {len(exp)}"))
    return out, cnt


def check_bbm(path, cap, maxvars, res):
    from biodivine_aeon import BooleanNetwork, AsynchronousGraph, Attractors
    from biobalm import SuccessionDiagram
    import time
    bn = BooleanNetwork.from_file(path)
    name = path.split("/")[-1]
    if bn.variable_count() > maxvars:
        count(res, "bbm_skipped_too_large")
        return []
    t0 = time.time()
    try:
        with case_timeout(cap):
            sd = SuccessionDiagram(bn)
            sd.build()
            seeds = [s for v in sd.expanded_attractor_seeds().values() for s in v]
            g = AsynchronousGraph(sd.network)
            atts = Attractors.attractors(g)
    except CaseTimeout:
        res["hangs"].append({"case": {"model": name}, "why": f"not finished within {cap} s (inconclusive, not counted as passed)"})
        return []
    except RuntimeError as e:
        res["hangs"].append({"case": {"model": name}, "why": f"library limit error: {str(e)[:80]}"})
        return []
    count(res, "bbm_models_compared")
    res["nontrivial"].add(name)
    out = []
    if len(seeds) != len(atts):
        out.append(("bbm-attractor-count-differs", f"{name}: {len(seeds)} seeds vs {len(atts)} AEON attractors"))
    hit = []
    for s in seeds:
        sv = g.mk_subspace(s)
        inn = [i for i, a in enumerate(atts) if not a.intersect(sv).is_empty()]
        if len(inn) != 1:
            out.append(("bbm-seed-not-in-exactly-one-attractor", f"{name}: seed in {len(inn)} attractors"))
        hit += inn
    if len(hit) != len(set(hit)):
        out.append(("bbm-attractor-reported-twice", name))
    res["outcomes"].add(("bbm", min(len(atts), 9)))
    return out


def run_unit(unit):
    kind = unit[0]
    res = new_result()
    if kind == "bbm":
        _, paths, cap, maxvars = unit
        for p in paths:
            res["evals"] += 1
            vs = check_bbm(p, cap, maxvars, res)
            for o, d in vs:
                res["violations"].append(V(o, {"kind": "bbm", "model": p.split("/")[-1]}, d, site="bbm"))
        res["transitions"] = res["evals"]
        res["traces"] = res["evals"]
        res["samples"].append({"model": paths[0]})
        return res
    for spec in unit[1]:
        res["evals"] += 1
        try:
            with case_timeout(120):
                if kind == "union":
                    vs, oc = check_union(spec)
                    if oc[0] >= 2 and oc[1] >= 2:
                        res["nontrivial"].add(repr(spec))
                    res["outcomes"].add(("union", oc))
                else:
                    vs, cnt = check_inputs(spec)
                    for j in range(cnt):
                        res["nontrivial"].add((repr(spec), j))
        except CaseTimeout:
            res["hangs"].append({"case": {"spec": list(spec)}, "why": "exceeded 120 s"})
            continue
        except Exception as e:
            vs = [("exception", f"{type(e).__name__}: {str(e)[:200]}")]
        for o, d in vs:
            res["violations"].append(V(o, {"kind": kind, "spec": list(spec)}, f"{spec}: {d}", site=kind))
        if len(res["samples"]) < 1:
            res["samples"].append({"kind": kind, "spec": list(spec)})
    best = {}
    for v in res["violations"]:
        k = (v["oracle"], v["site"])
        if k not in best or len(str(v["case"])) < len(str(best[k]["case"])):
            best[k] = v
    res["violations"] = list(best.values())
    res["states"] = res["evals"]
    res["transitions"] = res["evals"] * 6
    res["traces"] = res["evals"]
    return res


def replay(case):
    res = new_result()
    try:
        with case_timeout(600):
            if case["kind"] == "bbm":
                p = [m for m in U.bbm_models() if m.endswith("/" + case["model"])][0]
                vs = check_bbm(p, 500, 10000, res)
            elif case["kind"] == "union":
                vs, _ = check_union(tuple(case["spec"]))
            else:
                vs, _ = check_inputs(tuple(case["spec"]))
    except CaseTimeout:
        return [V("terminates", case, "hang")]
    return [V(o, case, d) for o, d in vs]
