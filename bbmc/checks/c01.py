"""C01 — seeds <-> attractors, one-to-one, after any complete strategy (DESIGN §3 C01)."""
from __future__ import annotations

from .common import *  # noqa
from .. import universe as U
from ..inv import seeds_check, bijection_check

ID = "C01"
LEVEL = "model_checking"
STRATS = ["build", "block", "bfs", "dfs", "scc", "aseeds", "dfs+cand"]
# "dfs+cand": complete DFS expansion, then the unrefined candidate list of every node is requested
# (greedy_asp_minification=False, simulation_minification=False) before the seeds: the other public route by which
# node_attractor_candidates may publish seeds (wave-4 change C01-w4-1).


def universes(tier, seed):
    out = [("U1", [("idx", 1, i) for i in range(4)]), ("U2", [("idx", 2, i) for i in range(256)])]
    u2f = []
    for i in range(256):
        from ..refmodel import net_from_index
        net = net_from_index(2, i)
        for v in U.with_free_inputs(net):
            u2f.append(("fi", 2, i, sorted(v.inputs)))
    out.append(("U2f", u2f))
    out.append(("K", [("k", k) for k in U.kernel()]))
    ks = sorted(U.kernel_small(3))
    out.append(("KxK", [("u", ("k", a), ("k", b)) for a in ks for b in ks if a <= b]))
    out.append(("MULTI3", [("idx", 3, i) for i in U.catalogue("multi")]))
    nm = U.catalogue("nfvs_multi")
    out.append(("NFVS3_multi", [("idx", 3, i) for i in nm]))
    if tier == "quick":
        out.append(("F3c", [("idx", 3, i) for i in U.F3_indices(True)]))
        out.append((f"MAA3[{seed % 128}/128]", [("idx", 3, i) for i in U.shard(U.catalogue("maa"), seed, 128)]))
        out.append((f"NFVS3[{seed % 256}/256]", [("idx", 3, i) for i in U.shard(U.catalogue("nfvs"), seed, 256)]))
        out.append(("P4c", [("p4", a, b) for a, b in U.P4_pairs(True)]))
        out.append(("I3", [("i3", i) for i in range(len(U.I3_nets()))]))
        out.append((f"U3c[idx={seed % 4093} mod 4093]", [("idx", 3, i) for i in U.U3c_shard(seed, 4093)]))
    else:
        out.append((f"U3c[idx={seed % 127} mod 127]", [("idx", 3, i) for i in U.U3c_shard(seed, 127)]))
        out.append(("F3", [("idx", 3, i) for i in U.F3_indices(False)]))
        out.append((f"MAA3[{seed % 2}/2]", [("idx", 3, i) for i in U.shard(U.catalogue("maa"), seed, 2)]))
        out.append((f"NFVS3[{seed % 16}/16]", [("idx", 3, i) for i in U.shard(U.catalogue("nfvs"), seed, 16)]))
        out.append(("P4", [("p4", a, b) for a, b in U.P4_pairs(False)]))
        out.append(("I3", [("i3", i) for i in range(len(U.I3_nets()))]))
        ks3 = sorted(U.kernel_small(3))
        out.append(("MULTI3xU1", [("u", ("idx", 3, i), ("idx", 1, j)) for i in U.catalogue("multi") for j in range(4)]))
        out.append(("MAA3[/64]xswitch", [("u", ("idx", 3, i), ("k", "bistable")) for i in U.shard(U.catalogue("maa"), seed, 64)]))
    return out


def plan(tier, seed):
    us = universes(tier, seed)
    units = []
    for name, specs in us:
        for ch in U.chunks(specs, 60):
            units.append((name, ch))
    return {
        "units": units,
        "universes": {n: len(s) for n, s in us},
        "bounds": {"strategies": STRATS, "max_variables": 6},
        "rule": "every network of each listed universe x every complete strategy; non-trivial = distinct network with "
                ">=2 attractors, or a complex attractor, or a motif-avoidant attractor (reference model)",
        "assumptions": ["reference model (explicit STG) is the specification; its two attractor implementations agree "
                        "with each other and with AEON on U1 and U2 (checked by bin/setup)"],
        "unit_timeout": 900,
    }


def check_case(net, strat):
    """returns list of (oracle, detail)"""
    sd = new_sd(net)
    sd, ret = apply(sd, COMPLETE_STRATEGIES[strat.split("+")[0]])
    if strat.endswith("+cand"):
        for i in list(sd.expanded_ids()):
            sd.node_attractor_candidates(i, compute=True, greedy_asp_minification=False, simulation_minification=False)
    if strat != "build" and ret is not True:
        return [("strategy-did-not-complete", f"{strat} returned {ret}")], None
    seeds = sd.expanded_attractor_seeds()
    # seeds must be available for every expanded node
    full = {i: sd.node_attractor_seeds(i, compute=True) for i in sd.expanded_ids()}
    out = []
    if {k: v for k, v in full.items() if v} != seeds:
        out.append(("expanded-seeds-inconsistent", "expanded_attractor_seeds() differs from per-node seeds"))
    vs, hits = seeds_check(net, sd, full)
    out += vs
    if not vs:
        out += bijection_check(net, hits)
    return out, (len(sd), len(net.attractors), len(net.maa))


def run_unit(unit):
    uname, specs = unit
    res = new_result()
    for spec in specs:
        net = U.resolve(spec)
        nontriv = len(net.attractors) >= 2 or any(a & (a - 1) for a in net.attractors) or net.maa
        res["states"] += net.N
        res["transitions"] += sum(bin(m).count("1") for m in net.succ)
        for strat in STRATS:
            case = {"net": list(spec), "strategy": strat}
            res["evals"] += 1
            try:
                with case_timeout(10):
                    vs, outcome = check_case(net, strat)
            except CaseTimeout:
                res["hangs"].append({"case": case, "why": "case exceeded 10 s"})
                continue
            except Exception as e:  # library raised: a complete strategy with default settings must not
                vs, outcome = [("exception", f"{type(e).__name__}: {str(e)[:300]}")], None
            res["traces"] += 1
            res["transitions"] += 2
            if outcome:
                res["outcomes"].add(outcome)
            for o, d in vs:
                res["violations"].append(V(o, case, f"{net!r}: {d}", site=strat))
        if nontriv:
            res["nontrivial"].add(repr(spec))
        if len(res["samples"]) < 2:
            res["samples"].append({"net": net.bnet(), "strategies": STRATS})
    return res


def replay(case):
    net = U.resolve(case["net"])
    with case_timeout(60):
        try:
            vs, _ = check_case(net, case["strategy"])
        except CaseTimeout:
            return [V("terminates", case, "hang")]
        except Exception as e:
            vs = [("exception", f"{type(e).__name__}: {str(e)[:300]}")]
    return [V(o, case, d, site=case["strategy"]) for o, d in vs]
