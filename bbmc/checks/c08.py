"""C08 — attractor candidates cover every attractor under every option and limit setting (DESIGN §3 C08)."""
from __future__ import annotations

import itertools
from .common import *  # noqa
from .. import universe as U
from ..inv import own_attractors, fmt_state

ID = "C08"
LEVEL = "model_checking"

RSOT = (0, 1, 2, 3)
ACL = (0, 1, 2, 3)
MSB = (0, 1)
NFVS = (0, 1, 2)


def config_grid(tier, pairs=True):
    out = [{}]
    for v in RSOT:
        out.append({"retained_set_optimization_threshold": v})
    for v in ACL:
        out.append({"attractor_candidates_limit": v})
    for v in MSB:
        out.append({"minimum_simulation_budget": v})
    for v in NFVS:
        out.append({"nfvs_size_threshold": v})
    for a in (RSOT if pairs else ()):
        for b in ACL:
            out.append({"retained_set_optimization_threshold": a, "attractor_candidates_limit": b})
    if tier != "quick":
        for a in RSOT + (1000,):
            for b in ACL + (100000,):
                for c in MSB + (1000,):
                    for d in NFVS + (2000,):
                        out.append({"retained_set_optimization_threshold": a, "attractor_candidates_limit": b,
                                    "minimum_simulation_budget": c, "nfvs_size_threshold": d})
    seen, res = set(), []
    for c in out:
        k = tuple(sorted(c.items()))
        if k not in seen:
            seen.add(k)
            res.append(c)
    return res


def universes(tier, seed):
    out = [("U1", [("idx", 1, i) for i in range(4)]), ("K", [("k", k) for k in U.kernel()])]
    if tier == "quick":
        out.append(("U2c", [("idx", 2, i) for i in U.U2c_indices()]))
        out.append((f"F3c[{seed % 128}/128]", [("idx", 3, i) for i in U.shard(U.F3_indices(True), seed, 128)]))
        out.append((f"MULTI3[{seed % 16}/16]", [("idx", 3, i) for i in U.shard(U.catalogue("multi"), seed, 16)]))
        out.append((f"NFVS3_multi[{seed % 16}/16]", [("idx", 3, i) for i in U.shard(U.catalogue("nfvs_multi"), seed, 16)]))
        out.append((f"NFVS3[{seed % 16384}/16384]", [("idx", 3, i) for i in U.shard(U.catalogue("nfvs"), seed, 16384)]))
        out.append((f"MAA3[{seed % 4096}/4096]", [("idx", 3, i) for i in U.shard(U.catalogue("maa"), seed, 4096)]))
        out.append((f"MAA3[{seed % 16384}/16384]+input", [("u", ("idx", 3, i), ("idx", 1, 2)) for i in U.shard(U.catalogue("maa"), seed, 16384)]))
    else:
        out.append(("U2", [("idx", 2, i) for i in range(256)]))
        out.append((f"F3c[{seed % 64}/64]", [("idx", 3, i) for i in U.shard(U.F3_indices(True), seed, 64)]))
        out.append((f"MULTI3[{seed % 8}/8]", [("idx", 3, i) for i in U.shard(U.catalogue("multi"), seed, 8)]))
        out.append((f"NFVS3_multi[{seed % 8}/8]", [("idx", 3, i) for i in U.shard(U.catalogue("nfvs_multi"), seed, 8)]))
        out.append((f"NFVS3[{seed % 8192}/8192]", [("idx", 3, i) for i in U.shard(U.catalogue("nfvs"), seed, 8192)]))
        out.append((f"MAA3[{seed % 2048}/2048]", [("idx", 3, i) for i in U.shard(U.catalogue("maa"), seed, 2048)]))
        out.append((f"MAA3[{seed % 8192}/8192]+input", [("u", ("idx", 3, i), ("idx", 1, 2)) for i in U.shard(U.catalogue("maa"), seed, 8192)]))
    return out


def plan(tier, seed):
    us = universes(tier, seed)
    units = []
    for name, specs in us:
        for ch in U.chunks(specs, 4 if tier == "quick" else 1):   # thorough: one network per unit (short drain after the wall budget)
            units.append((name, ch, tier))
    return {
        "units": units, "universes": {n: len(s) for n, s in us},
        "bounds": {"config grid": f"{len(config_grid(tier))} configurations: default, single deviations retained_set_optimization_threshold "
                   f"{RSOT}, attractor_candidates_limit {ACL}, minimum_simulation_budget {MSB}, nfvs_size_threshold {NFVS}, all pairs "
                   "of the first two (quick: pairs on U1, U2c, K only)" + ("" if tier == "quick" else ", and the full product incl. defaults"),
                   "options": "greedy_asp_minification x simulation_minification (4 combinations)",
                   "diagram states": "stub root; every node of the fully expanded diagram; every node after skip completion of the "
                                     "root-expanded diagram"},
        "rule": "every (network, diagram state, node, option combination, configuration): the call raises RuntimeError or returns "
                "full states inside the node space hitting every reference attractor of the node outside its successors; "
                "non-trivial = distinct (network, node) whose node has >= 2 such attractors or a complex one",
        "assumptions": [],
        "unit_timeout": 2400,
    }


def prep(net, state, cfg):
    sd = new_sd(net, cfg)
    if state == "expanded":
        sd.expand_bfs()
    elif state in ("skipped", "skipped_q"):
        sd.node_successors(0, compute=True)
        sd.skip_remaining()
        if state == "skipped_q":  # skip-node pruning reads other nodes' already-known empty results
            try:
                sd.node_attractor_candidates(0, compute=True)
            except RuntimeError:
                pass
    return sd


def check_call(net, state, cfg, node, greedy, sim):
    sd = prep(net, state, cfg)
    if node >= len(sd):
        return [], None
    try:
        c = sd.node_attractor_candidates(node, compute=True, greedy_asp_minification=greedy, simulation_minification=sim)
    except RuntimeError:
        return [], "raised"
    out = []
    d = sd.node_data(node)
    m = net.mask_of(d["space"])
    cs = 0
    for x in c:
        if len(x) != net.n or set(x) != set(net.names):
            out.append(("candidate-not-full-state", f"node {node}: {x}"))
            continue
        s = net.state_of(x)
        if not (m >> s) & 1:
            out.append(("candidate-outside-node", f"node {node}: {fmt_state(net, s)}"))
        cs |= 1 << s
    own = own_attractors(net, sd, node)
    if d["skipped"]:
        # skip nodes may also exclude what other attractor-free nodes cover; none are known here (fresh diagram)
        pass
    miss = [a for a in own if not (a & cs)]
    if miss:
        out.append(("candidates-miss-attractor", f"node {node} ({state}): candidates {[fmt_state(net, net.state_of(x)) for x in c if len(x) == net.n]} "
                    f"miss {len(miss)} of {len(own)} attractors"))
    return out, len(c)


def run_unit(unit):
    uname, specs, tier = unit
    res = new_result()
    grid = config_grid(tier, pairs=(tier != "quick" or uname in ("U1", "U2c", "K")))
    unit_hangs = 0
    for spec in specs:
        net = U.resolve(spec)
        res["states"] += net.N
        nfull = len(net.sd[0])
        try:
            if True:
                for state in ("stub", "expanded", "skipped", "skipped_q"):
                    nodes = [0] if state == "stub" else list(range(nfull + len(net.min_traps)))
                    probe = prep(net, state, {})
                    nodes = [i for i in nodes if i < len(probe)]
                    for node in nodes:
                        own = own_attractors(net, probe, node)
                        if len(own) >= 2 or any(a & (a - 1) for a in own):
                            res["nontrivial"].add((repr(spec), state, node))
                        for cfg in grid:
                            for greedy in (True, False):
                                for sim in (True, False):
                                    case = {"net": list(spec), "state": state, "node": node, "config": cfg, "greedy": greedy, "sim": sim}
                                    res["evals"] += 1
                                    if unit_hangs > 5:
                                        continue
                                    try:
                                        with case_timeout(10):
                                            vs, outcome = check_call(net, state, cfg, node, greedy, sim)
                                    except CaseTimeout:
                                        # a hang is C13's business: counted as inconclusive here; a unit stops after a few
                                        unit_hangs += 1
                                        res["hangs"].append({"case": case, "why": "call exceeded 10 s"})
                                        if unit_hangs > 5:
                                            res["caps"].append({"unit": uname, "cap": "more than 5 calls exceeded 10 s; rest of the unit skipped"})
                                        continue
                                    except Exception as e:
                                        vs, outcome = [("exception", f"{type(e).__name__}: {str(e)[:200]}")], None
                                    res["outcomes"].add((state, outcome if outcome == "raised" else (outcome is not None and min(outcome, 3))))
                                    for o, d in vs:
                                        res["violations"].append(V(o, case, f"{net!r}: config {cfg} greedy={greedy} sim={sim}: {d}",
                                                                   site=",".join(sorted(cfg)) or "default"))
        except CaseTimeout:
            res["hangs"].append({"case": {"net": list(spec)}, "why": "exceeded 1200 s"})
        if len(res["samples"]) < 2:
            res["samples"].append({"net": net.bnet(), "configs": len(grid)})
    best = {}
    for v in res["violations"]:
        k = (v["oracle"], v["site"])
        if k not in best or len(str(v["case"])) < len(str(best[k]["case"])):
            best[k] = v
    res["violations"] = list(best.values())
    res["transitions"] = res["evals"]
    res["traces"] = res["evals"]
    return res


def replay(case):
    net = U.resolve(case["net"])
    try:
        with case_timeout(120):
            vs, _ = check_call(net, case["state"], case["config"], case["node"], case["greedy"], case["sim"])
    except CaseTimeout:
        return [V("terminates", case, "hang")]
    except Exception as e:
        vs = [("exception", f"{type(e).__name__}: {str(e)[:200]}")]
    return [V(o, case, d) for o, d in vs]
