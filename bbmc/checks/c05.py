"""C05 — diagrams completed with skip nodes never lose an attractor (DESIGN §3 C05)."""
from __future__ import annotations

import itertools
from .common import *  # noqa
from .. import universe as U
from ..explorer import Explorer, plain_ops
from ..drv import replay as replay_hist
from ..inv import fmt_state
from .c03 import PARTIAL, partial_op

ID = "C05"
LEVEL = "model_checking"
CONFIG = {"minimum_simulation_budget": 1}


def universes(tier, seed):
    out = [("U2", [("idx", 2, i) for i in range(256)]), ("K", [("k", k) for k in U.kernel()])]
    ks = sorted(U.kernel_small(3))
    kk = [("u", ("k", a), ("k", b)) for a in ks for b in ks if a <= b]
    if tier == "quick":
        out.append((f"KxK[{seed % 32}/32]", U.shard(kk, seed, 32)))
        # overlapping skip nodes x a motif-avoidant attractor: the shape behind D12, on every quick run
        out.append(("KxK-overlap-maa", [("u", ("k", a), ("k", b)) for a, b in
                                        (("depth_overlap", "maa3"), ("depth_overlap", "maa_16555679"), ("depth_15986426", "maa_16555679"))] +
                    [("u", ("u", ("idx", 3, 8974833), ("k", "bistable")), ("k", "bistable")), ("bnet", U.GATED_MAA_BNET)]))
        out.append((f"F3c[{seed % 64}/64]", [("idx", 3, i) for i in U.shard(U.F3_indices(True), seed, 64)]))
        out.append((f"MULTI3[{seed % 4}/4]", [("idx", 3, i) for i in U.shard(U.catalogue("multi"), seed, 4)]))
        out.append((f"MAA3[{seed % 2048}/2048]", [("idx", 3, i) for i in U.shard(U.catalogue("maa"), seed, 2048)]))
        out.append((f"MAA3[{seed % 16384}/16384]+switch", [("u", ("idx", 3, i), ("k", "bistable")) for i in U.shard(U.catalogue("maa"), seed, 16384)]))
    else:
        out.append(("KxK", kk))
        out.append((f"F3c[{seed % 4}/4]", [("idx", 3, i) for i in U.shard(U.F3_indices(True), seed, 4)]))
        out.append(("MULTI3", [("idx", 3, i) for i in U.catalogue("multi")]))
        out.append((f"MAA3[{seed % 128}/128]", [("idx", 3, i) for i in U.shard(U.catalogue("maa"), seed, 128)]))
        out.append((f"MAA3[{seed % 1024}/1024]+switch", [("u", ("idx", 3, i), ("k", "bistable")) for i in U.shard(U.catalogue("maa"), seed, 1024)]))
    return out


def plan(tier, seed):
    us = universes(tier, seed)
    units = []
    for name, specs in us:
        for spec in (specs if name in ("K", "U2") else []):
            sz = len(U.resolve(spec).sd[0])
            if tier == "quick":
                hist = (2 if sz <= 3 else 1 if sz <= 5 else 0) if name == "K" else (1 if sz >= 3 else 0)
            else:
                hist = 2 if sz <= 4 else (1 if sz <= 9 else 0)
            units.append((name, [spec], hist))
        if name not in ("K", "U2"):
            for ch in U.chunks(specs, 1 if ("KxK" in name or "switch" in name) else 6):
                units.append((name, ch, 0))
    units.sort(key=lambda u: (-u[2], not ("KxK" in u[0] or "switch" in u[0])))
    return {
        "units": units, "universes": {n: len(s) for n, s in us},
        "bounds": {"partial expansion": "7 partial strategies x every size limit 1..|full diagram| (diagrams with more than 8 nodes: limits 1..6, half, full); plus every state reachable by "
                   "plain-alphabet histories of depth <= 2 (K, small diagrams; 1 or 0 for larger ones) / 1 (U2)",
                   "completion routes": "skip_remaining | skip_to_minimal on every subset of stubs (<=3 stubs; else each single stub "
                   "and all) in id order then skip_remaining | expand_minimal_spaces(skip_ignored=True) then skip_remaining | (K and the overlap x MAA unions) "
                   "seeds of all expanded nodes, skip_to_minimal on one stub, its seeds queried at once, then skip_remaining",
                   "seed query order": "ascending, descending; all permutations when the completed diagram has <= 4 nodes"},
        "rule": "every (network, partial expansion, completion route, query order): every reference attractor is hit by a seed, "
                "every seed lies in a reference attractor inside its node, and without motif-avoidant attractors every attractor "
                "is hit exactly once; non-trivial = distinct (network, completed diagram) containing at least one skip node",
        "assumptions": ["configuration: defaults except minimum_simulation_budget=1"],
        "unit_timeout": 2400,
    }


def routes_for(sd, skipq=False):
    stubs = list(sd.stub_ids())
    yield ("skiprem",)
    yield ("minskip",)
    if skipq:
        # one stub skipped and searched while the other stubs still exist, then the rest skipped (wave-5 change C05-w5-1:
        # a result recorded for a skip node must stay valid when more skip nodes appear later)
        for i in stubs[:8]:
            yield ("skipq", i)
    if len(stubs) <= 3:
        subsets = [c for k in range(1, len(stubs) + 1) for c in itertools.combinations(stubs, k)]
    else:
        subsets = [(s,) for s in stubs] + [tuple(stubs)]
    for c in subsets:
        yield ("skipsome",) + c


def complete(sd, route):
    if route[0] == "skipsome":
        for i in route[1:]:
            sd.skip_to_minimal(i)
    elif route[0] == "minskip":
        sd.expand_minimal_spaces(skip_ignored=True)
    elif route[0] == "skipq":
        for i in list(sd.expanded_ids()):
            sd.node_attractor_seeds(i, compute=True)
        sd.skip_to_minimal(route[1])
        sd.node_attractor_seeds(route[1], compute=True)
    sd.skip_remaining()


def orders_for(sd):
    ids = list(sd.node_ids())
    yield ids
    yield ids[::-1]
    if len(ids) <= 4:
        for p in itertools.permutations(ids):
            if list(p) != ids and list(p) != ids[::-1]:
                yield list(p)


def judge(net, sd, order):
    out = []
    hits = []
    for i in order:
        m = net.mask_of(sd.node_data(i)["space"])
        for s in sd.node_attractor_seeds(i, compute=True):
            if len(s) != net.n:
                out.append(("seed-not-full-state", f"node {i}: {s}"))
                continue
            a = net.attractor_of(net.state_of(s))
            if a is None:
                out.append(("seed-not-in-attractor", f"node {i}: {fmt_state(net, net.state_of(s))}"))
            elif a & ~m:
                out.append(("seed-attractor-outside-node", f"node {i}: {fmt_state(net, net.state_of(s))}"))
            else:
                hits.append(a)
    miss = [a for a in net.attractors if a not in set(hits)]
    if miss:
        out.append(("attractor-lost", f"{len(miss)} of {len(net.attractors)} attractors not reported (query order {order})"))
    if not net.maa and len(hits) != len(set(hits)):
        out.append(("attractor-reported-twice-without-maa", f"{len(hits)} seeds for {len(set(hits))} attractors (query order {order})"))
    return out


def run_case(net, prefix, route, order_idx):
    sd = replay_hist(net, prefix, CONFIG)
    complete(sd, route)
    if list(sd.stub_ids()):
        return [("stubs-left-after-skip-completion", str(list(sd.stub_ids())))], False
    orders = list(orders_for(sd))
    order = orders[order_idx] if order_idx < len(orders) else orders[0]
    has_skip = any(sd.node_data(i)["skipped"] for i in sd.node_ids())
    return judge(net, sd, order), has_skip


def cases(net, hist_depth, skipq=False):
    nfull = len(net.sd[0])
    prefixes = []
    lims = list(range(1, nfull + 1)) if nfull <= 8 else sorted(set(list(range(1, 7)) + [nfull // 2, nfull]))
    for name in PARTIAL:
        for lim in lims:
            prefixes.append((partial_op(name, lim),))
    if hist_depth:
        ex = Explorer(net, lambda n, s: plain_ops(n, s, limits="few", targets="nodes"), config=CONFIG)
        prefixes += [h for h in ex.run(depth=hist_depth) if h]
    seen = set()
    for p in prefixes:
        base = replay_hist(net, p, CONFIG)
        from ..drv import dump
        k = dump(net, base)
        if k in seen:
            continue
        seen.add(k)
        for route in routes_for(base, skipq):
            probe = replay_hist(net, p, CONFIG)
            complete(probe, route)
            for oi in range(len(list(orders_for(probe)))):
                yield p, route, oi


def run_unit(unit):
    uname, specs, hist_depth = unit
    res = new_result()
    for spec in specs:
        net = U.resolve(spec)
        res["states"] += net.N
        try:
            with case_timeout(1800):
                for p, route, oi in cases(net, hist_depth, skipq=(uname in ("K", "KxK-overlap-maa"))):
                    case = {"net": list(spec), "prefix": [list(x) for x in p], "route": list(route), "order": oi}
                    res["evals"] += 1
                    res["transitions"] += len(p) + 2
                    try:
                        vs, has_skip = run_case(net, p, route, oi)
                    except CaseTimeout:
                        raise
                    except Exception as e:
                        vs, has_skip = [("exception", f"{type(e).__name__}: {str(e)[:200]}")], False
                    res["traces"] += 1
                    if has_skip:
                        res["nontrivial"].add((repr(spec), p, route))
                    for o, d in vs:
                        res["violations"].append(V(o, case, f"{net!r}: after {p} then {route}: {d}", site=route[0]))
        except CaseTimeout:
            res["hangs"].append({"case": {"net": list(spec)}, "why": "exceeded 1800 s"})
            res["caps"].append({"net": list(spec), "cap": "time"})
        if len(res["samples"]) < 2:
            res["samples"].append({"net": net.bnet(), "example": "partial expansion, skip completion, seeds in several orders"})
    # keep shortest violation per (oracle, site)
    best = {}
    for v in res["violations"]:
        k = (v["oracle"], v["site"], repr(v["case"]["net"]))
        if k not in best or len(str(v["case"])) < len(str(best[k]["case"])):
            best[k] = v
    res["violations"] = list(best.values())
    return res


def _t(o):
    return tuple(tuple(map(tuple, x)) if isinstance(x, list) and x and isinstance(x[0], list) else (tuple(x) if isinstance(x, list) else x) for x in o)


def replay(case):
    net = U.resolve(case["net"])
    p = tuple(_t(o) for o in case["prefix"])
    try:
        with case_timeout(120):
            vs, _ = run_case(net, p, tuple(case["route"]), case["order"])
    except CaseTimeout:
        return [V("terminates", case, "hang")]
    except Exception as e:
        vs = [("exception", f"{type(e).__name__}: {str(e)[:200]}")]
    return [V(o, case, d, site=case["route"][0]) for o, d in vs]
