"""C11 — percolation computes exactly the logical domain of influence (DESIGN §3 C11)."""
from __future__ import annotations

from .common import *  # noqa
from .. import universe as U
from ..drv import bn_of
from . import c10

ID = "C11"
LEVEL = "model_checking"


def universes(tier, seed):
    us = c10.universes(tier, seed)
    if tier == "quick":
        us = [(n, s) for n, s in us if not n.startswith("F3")]
        us.append(("F3", [("idx", 3, i) for i in U.F3_indices(False)]))
        us.append((f"MAA3[{seed % 64}/64]", [("idx", 3, i) for i in U.shard(U.catalogue("maa"), seed, 64)]))
    # the same truth tables under a shifted window of names (A,B,C then B,C,D then A,C,D), alternating inside one worker
    # process: anything memoised on names or on BDD structure alone leaks between them (wave-5 change C11-w5-1)
    sh = []
    for i in U.shard(U.F3_indices(False), seed, 8 if tier == "quick" else 2):
        sh += [("idx", 3, i), ("api", ("idx", 3, i), ["B", "C", "D"]), ("api", ("idx", 3, i), ["A", "C", "D"])]
    us.append((f"F3[{seed % (8 if tier == 'quick' else 2)}/{8 if tier == 'quick' else 2}] x name windows", sh))
    return us


def plan(tier, seed):
    us = universes(tier, seed)
    units = []
    for name, specs in us:
        for ch in U.chunks(specs, 100):
            units.append((name, ch))
    return {
        "units": units, "universes": {n: len(s) for n, s in us},
        "bounds": {"subspaces": "all 3^n (consistent or conflicting, trap or not)", "targets for find_single_drivers": "all 3^n - 1"},
        "rule": "every network x every subspace: percolate_space, percolate_space_strict, percolation_conflicts(non-strict), "
                "find_single_node_LDOIs, find_single_drivers compared with the reference least fixed point; non-trivial = "
                "distinct (network, subspace) where percolation fixes at least one further variable",
        "assumptions": ["strict percolation is read as in the repository's drivers_test (a given variable whose function is "
                        "determined to its given value is reported)"],
        "unit_timeout": 900,
    }


def check_net(net, spec, res):
    from biodivine_aeon import AsynchronousGraph
    from biobalm.space_utils import percolate_space, percolate_space_strict, percolation_conflicts
    from biobalm.drivers import find_single_node_LDOIs, find_single_drivers
    vio = []

    def rep(oracle, what, detail):
        vio.append(V(oracle, {"net": list(spec), "what": what}, f"{net!r}: {detail}", site=what[0]))

    bn = bn_of(net).infer_valid_graph()
    g = AsynchronousGraph(bn)
    trapkeys = {key(t) for t in net.trap_spaces}
    nt = 0
    for sp, m in net.spaces:
        res["evals"] += 1
        got = percolate_space(g, sp)
        exp = net.percolate(sp)
        if len(exp) > len(sp):
            nt += 1
        if got != exp:
            rep("percolation-differs-from-lfp", ["perc", key(sp)], f"space {sp}: got {got} expected {exp}")
            continue
        if not sub(got, sp):
            rep("percolation-dropped-given-value", ["perc", key(sp)], f"{sp} -> {got}")
        if percolate_space(g, got) != got:
            rep("percolation-not-idempotent", ["perc2", key(sp)], f"{sp} -> {got} -> {percolate_space(g, got)}")
        if key(sp) in trapkeys and key(got) not in trapkeys:
            rep("percolated-trap-space-not-trap", ["perc", key(sp)], f"{sp} -> {got}")
        gs = percolate_space_strict(g, sp)
        es = net.percolate_strict(sp)
        if gs != es:
            rep("strict-percolation-differs", ["strict", key(sp)], f"space {sp}: got {gs} expected {es}")
        gc = percolation_conflicts(g, sp, strict_percolation=False)
        em = net.mask_of(exp)
        ec = set()
        for nm, v in exp.items():
            c = net.const_on(net.idx[nm], em)
            if c is not None and c != v:
                ec.add(nm)
        if gc != ec:
            rep("percolation-conflicts-differ", ["conf", key(sp)], f"space {sp}: got {sorted(gc)} expected {sorted(ec)}")
        if not ec <= set(sp):
            rep("oracle-self-check", ["conf", key(sp)], "derived variable in conflict")
    if nt:
        res["nontrivial"].add(repr(spec))
    # single-node LDOIs / drivers
    for form in ("graph", "bn"):
        L = find_single_node_LDOIs(g if form == "graph" else bn)
        EL = {}
        for i, nm in enumerate(net.names):
            if net.is_const_fn(i):
                continue
            for v in (0, 1):
                EL[(nm, v)] = net.percolate_strict({nm: v})
        res["evals"] += 1
        if L != EL:
            rep("single-node-ldoi-differs", ["ldoi", form], f"got {L} expected {EL}")
            continue
        if form == "graph":
            for tsp, _ in net.spaces:
                if not tsp:
                    continue
                res["evals"] += 1
                gd = find_single_drivers(tsp, g)
                ed = {fix for fix, l in EL.items() if all((l.get(k) == v) or (fix == (k, v)) for k, v in tsp.items())}
                if gd != ed:
                    rep("single-drivers-differ", ["drivers", key(tsp)], f"target {tsp}: got {sorted(gd)} expected {sorted(ed)}")
    return vio


def run_unit(unit):
    uname, specs = unit
    res = new_result()
    for spec in specs:
        net = U.resolve(spec)
        res["states"] += len(net.spaces)
        try:
            with case_timeout(60):
                vio = check_net(net, spec, res)
        except CaseTimeout:
            res["hangs"].append({"case": {"net": list(spec)}, "why": "exceeded 60 s"})
            continue
        res["traces"] += 1
        res["outcomes"].add((len(net.sources), sum(net.is_const_fn(i) for i in range(net.n)), net.n))
        seen = set()
        for v in vio:
            if (v["oracle"], v["site"]) not in seen:
                seen.add((v["oracle"], v["site"]))
                res["violations"].append(v)
        if len(res["samples"]) < 2:
            res["samples"].append({"net": net.bnet(), "subspaces": len(net.spaces)})
    res["transitions"] = res["evals"]
    return res


def replay(case):
    net = U.resolve(case["net"])
    vio = check_net(net, case["net"], new_result())
    return [v for v in vio if v["case"]["what"] == case["what"]] or vio
