"""C20 — reported diagram metadata is accurate (DESIGN §3 C20)."""
from __future__ import annotations

from .common import *  # noqa
from .. import universe as U
from ..explorer import Explorer, plain_ops, full_ops
from ..drv import replay as replay_hist, structure, dump
from ..inv import meta_check, fmt_state
from . import c04

ID = "C20"
LEVEL = "model_checking"


def plan(tier, seed):
    units = []
    unis = {}
    K = U.kernel()
    U2 = U.U2c_indices() if tier == "quick" else list(range(256))
    # A: history exploration (plain closure / bounded, and the full alphabet at bounded depth)
    plain = [("k", k) for k, n in K.items() if n.n <= 4] + [("idx", 2, i) for i in U2]
    for spec in plain:
        sz = c04.sd_size(spec)
        if tier == "quick":
            mode = ("closure", "few") if sz <= 2 else (("depth", 2, "few") if sz <= 5 else ("depth", 1, "few"))
        else:
            mode = ("closure", "few") if sz <= 4 else ("depth", 2, "few")
        units.append(("plain", [spec], mode))
    unis["plain-alphabet exploration (K n<=4, U2c)"] = len(plain)
    # every order in which the nodes can be expanded one by one (closure of the succ-only alphabet): new paths to nodes
    # whose sub-diagram is already expanded appear in every possible way
    succnets = [("k", k) for k, n in K.items() if len(n.sd[0]) >= 4 and len(n.sd[0]) <= (8 if tier == "quick" else 12)]
    succnets += [("p4", a, b) for a, b in U.shard(U.P4_pairs(True), seed, 256 if tier == "quick" else 64) if 4 <= c04.sd_size(("p4", a, b)) <= 9]
    for spec in succnets:
        units.append(("succ", [spec], ("closure", "succ")))
    unis["succ-only closure (all expansion orders)"] = len(succnets)
    ks3 = sorted(U.kernel_small(3))
    deep = [("u", ("k", a), ("k", b)) for a in ks3 for b in ks3 if a <= b]
    deep = [d for d in deep if 6 <= c04.sd_size(d[1]) * c04.sd_size(d[2])]
    if tier == "quick":
        deep = U.shard(deep, seed, 12)
    else:
        deep += [("u", ("u", ("k", "depth_overlap"), ("k", "depth_overlap")), ("k", "bistable")),
                 ("u", ("u", ("k", "nested"), ("k", "depth_overlap")), ("k", "toggle_neg"))]
    for spec in deep:
        units.append(("deepfirst", [spec], ("deepfirst",)))
    unis["deep-first expansion orders on unions (reference-free depth check, up to 8 variables)"] = len(deep)
    # synthetic depth-bookkeeping harness (bbmc/dagdepth.py)
    NSH = 64
    dd = [(5, 10), (6, 9), (7, 8)] if tier == "quick" else [(5, 10), (6, 15), (7, 9)]
    for (k, me) in dd:
        for sh in range(NSH if k >= 6 else 1):
            units.append(("dagdepth", [(k, me, sh, NSH if k >= 6 else 1)], ("dagdepth",)))
    unis["depth harness: DAG shapes (nodes, max edges)"] = len(dd)
    # every complete strategy on unions and on the larger kernel networks: reference-free depth / id check afterwards
    strat_nets = [("u", ("k", a), ("k", b)) for a in ks3 for b in ks3 if a <= b] + [("k", k) for k, n in K.items() if n.n >= 4]
    if tier == "quick":
        strat_nets = U.shard(strat_nets[:210], seed, 2) + strat_nets[210:]
    for ch in U.chunks(strat_nets, 8):
        units.append(("strategies", ch, ("strategies",)))
    unis["complete strategies on unions / larger kernel networks (reference-free depth check)"] = len(strat_nets)
    fulld = 2
    fullnets = [("k", k) for k, n in K.items() if n.n <= 4 and len(n.sd[0]) <= (5 if tier == "quick" else 9)] + \
               [("idx", 2, i) for i in (U2 if tier != "quick" else [i for i in U2 if c04.sd_size(("idx", 2, i)) >= 3])]
    for spec in fullnets:
        units.append(("full", [spec], ("depth", fulld, "full")))
    unis["full-alphabet exploration depth 2"] = len(fullnets)
    if tier == "quick":
        f3 = [("idx", 3, i) for i in U.shard(U.F3_indices(True), seed, 8)]
        unis[f"F3c[{seed % 8}/8] depth-1 plain"] = len(f3)
    else:
        f3 = [("idx", 3, i) for i in U.F3_indices(True)]
        unis["F3c depth-1 plain"] = len(f3)
    for ch in U.chunks(f3, 40):
        units.append(("plain", ch, ("depth", 1, "none")))
    # C: summary() after build()
    summ = [("idx", 2, i) for i in range(256)] + [("k", k) for k in K] + [("idx", 3, i) for i in U.catalogue("multi")]
    summ += [("idx", 3, i) for i in (U.F3_indices(True) if tier != "quick" else U.shard(U.F3_indices(True), seed, 4))]
    summ += [("idx", 3, i) for i in U.shard(U.catalogue("maa"), seed, 64 if tier == "quick" else 8)]
    summ += [("p4", a, b) for a, b in (U.P4_pairs(True) if tier != "quick" else U.shard(U.P4_pairs(True), seed, 4))]
    ks = sorted(U.kernel_small(3))
    summ += [("u", ("k", a), ("k", b)) for a in ks for b in ks if a <= b]
    # networks declared through the API in unsorted variable order (summary() prints in sorted order)
    UNS = {2: ["z", "b"], 3: ["z", "b", "a"], 4: ["z", "b", "y", "a"]}
    summ += [("api", ("k", k), UNS[n.n]) for k, n in K.items() if n.n in UNS]
    unis["summary after build"] = len(summ)
    for ch in U.chunks(summ, 150):
        units.append(("summary", ch, None))
    units.sort(key=lambda u: (u[0] == "summary", u[2][0] != "closure" if u[2] else True))
    return {
        "units": units, "universes": unis,
        "bounds": {"plain": "closure (|SD|<=2 quick / <=4 thorough) else depth 2 (depth 1 above 5 nodes in quick), limits {None,2}; F3c at depth 1",
                   "depth harness": "every topologically labelled DAG with all nodes reachable, (nodes, max edges) in " + str(dd) + ", x both child orders x every order of single-node expansions, as an explicit state graph over (expanded set, depth vector); transitions call the real _ensure_edge",
                   "full": "C14 alphabet (queries, skip, block with sources, scc, build, reclaim, pickle, ...) depth 2",
                   "pairs": "is_subgraph / is_isomorphic on all ordered pairs of the first 25 reached plain states per network",
                   "find_node": "every one of the 3^n spaces in every reached state"},
        "rule": "every reached state: depth = longest root path, ids contiguous, find_node exact for all 3^n spaces; every "
                "ordered state pair: is_subgraph/is_isomorphic = inclusion/equality of node and edge sets by space; summary() "
                "after build() parsed back against the reference attractors; non-trivial = distinct canonical state with a node "
                "reachable by two paths of different length, or distinct network whose summary lists >= 2 attractors",
        "assumptions": ["is_subgraph is judged on states of the plain alphabet only (skip completion creates nodes without incoming edges)"],
        "unit_timeout": 2400,
    }


def find_node_check(net, sd):
    out = []
    by_space = {key(sd.node_data(i)["space"]): i for i in sd.node_ids()}
    for sp, _ in net.spaces:
        got = sd.find_node(sp)
        exp = by_space.get(key(sp))
        if got != exp:
            out.append(("find-node-wrong", f"find_node({sp}) = {got}, expected {exp}"))
            break
    if sd.find_node({"no_such_variable": 1}) is not None:
        out.append(("find-node-unknown-variable", "expected None"))
    if len(sd) != len(list(sd.node_ids())) or list(sd.node_ids()) != list(range(len(sd))):
        out.append(("len-or-ids-wrong", f"{len(sd)} {list(sd.node_ids())}"))
    return out


def multipath(sd):
    import networkx as nx
    for i in sd.node_ids():
        if sd.dag.in_degree(i) >= 2:
            return True
    return False


def explore(net, spec, kind, mode, res):
    def invariant(net_, sd, hist, op, ret):
        return meta_check(net, sd) + find_node_check(net, sd)
    if kind == "succ":
        ops = lambda n, s: [("succ", i) for i in s.node_ids() if not s.node_data(i)["expanded"]]
    elif kind == "plain":
        lim = mode[1] if mode[0] == "closure" else mode[2]
        ops = lambda n, s: plain_ops(n, s, limits=lim, targets="nodes")
    else:
        ops = lambda n, s: full_ops(n, s)
    ex = Explorer(net, ops, invariant, max_states=3000 if kind != 'succ' else 20000)
    hists = ex.run(depth=None if mode[0] == "closure" else mode[1])
    vio = []
    for o, d, h in ex.violations:
        vio.append(V(o, {"net": list(spec), "history": [list(x) for x in h]}, f"{net!r}: after {h}: {d}", site=h[-1][0] if h else "init"))
    res["states"] += len(ex.states)
    res["transitions"] += ex.transitions
    res["traces"] += ex.transitions
    res["evals"] += ex.transitions
    if ex.capped:
        res["caps"].append({"net": list(spec), "cap": "max_states 3000"})
    # pairs
    if kind == "plain" and mode[0] != "depth" or (kind == "plain" and mode[1] >= 2):
        hs = sorted(hists, key=len)[:25]
        sds = [replay_hist(net, h) for h in hs]
        sts = [structure(s) for s in sds]
        for a in range(len(sds)):
            if multipath(sds[a]):
                res["nontrivial"].add((repr(spec), hash(dump(net, sds[a], with_cache=False))))
            for b in range(len(sds)):
                res["evals"] += 1
                ea = {(k, c) for k, (e, s, ch) in sts[a].items() for c, _ in ch}
                eb = {(k, c) for k, (e, s, ch) in sts[b].items() for c, _ in ch}
                exp_sub = set(sts[a]) <= set(sts[b]) and ea <= eb
                got = sds[a].is_subgraph(sds[b])
                case = {"net": list(spec), "history": [list(x) for x in hs[a]], "other": [list(x) for x in hs[b]]}
                if got != exp_sub:
                    vio.append(V("is-subgraph-wrong", case, f"{net!r}: {hs[a]} vs {hs[b]}: got {got} expected {exp_sub}", site="is_subgraph"))
                exp_iso = set(sts[a]) == set(sts[b]) and ea == eb
                if sds[a].is_isomorphic(sds[b]) != exp_iso:
                    vio.append(V("is-isomorphic-wrong", case, f"{net!r}: {hs[a]} vs {hs[b]}: expected {exp_iso}", site="is_isomorphic"))
    return vio


def deepfirst(net, spec, res):
    """reference-free depth check on larger diagrams: expand the root (and one child), fully expand the sub-diagram of one
    child / grandchild first, then complete the diagram in four different orders; depth and ids are checked after every call"""
    vio = []

    def run(hist_ops, completion):
        sd = new_sd(net)
        hist = []

        def step(op):
            nonlocal sd
            sd, _ = apply(sd, op)
            hist.append(op)
            res["transitions"] += 1
            for o, d in meta_check(net, sd):
                vio.append(V(o, {"net": list(spec), "history": [list(x) for x in hist]}, f"{net!r}: after {tuple(hist)}: {d}", site="deepfirst"))
                return False
            return True

        for op in hist_ops:
            if not step(op):
                return
        if completion in ("asc", "desc"):
            for _ in range(10000):
                stubs = list(sd.stub_ids())
                if not stubs:
                    break
                if not step(("succ", stubs[0] if completion == "asc" else stubs[-1])):
                    return
        else:
            step((completion, None, None, None))
        res["evals"] += 1
        res["states"] += 1

    base = new_sd(net)
    children = sorted(base.node_successors(0, compute=True))
    for X in children:
        for comp in ("asc", "desc", "bfs", "dfs"):
            run([("succ", 0), ("bfs", X, None, None)], comp)
    for c in children:
        b2 = new_sd(net)
        b2.node_successors(0, compute=True)
        for g in sorted(b2.node_successors(c, compute=True)):
            for comp in ("asc", "desc", "bfs", "dfs"):
                run([("succ", 0), ("succ", c), ("bfs", g, None, None)], comp)
    res["traces"] += res["evals"]
    return vio


def dagdepth_unit(spec, res):
    from ..dagdepth import dags, check_dag
    from biobalm import SuccessionDiagram
    k, me, sh, nsh = spec
    sd0 = SuccessionDiagram.from_rules("A, A")
    if not hasattr(sd0, "_ensure_edge"):
        count(res, "depth_harness_skipped_no_private_seam")
        return []
    try:  # probe on the smallest shape: if the private seam no longer works this way, skip (counted) rather than alarm
        if check_dag(lambda: sd0, 2, ((0, 1),), "asc")[0] is not None:
            raise RuntimeError("probe failed")
    except Exception:
        count(res, "depth_harness_skipped_no_private_seam")
        return []
    vio = []
    for idx, es in enumerate(dags(k, me)):
        if idx % nsh != sh:
            continue
        for order in ("asc", "desc"):
            v, (st, tr) = check_dag(lambda: sd0, k, es, order)
            res["states"] += st
            res["transitions"] += tr
            res["evals"] += 1
            if len(es) > k - 1:
                res["nontrivial"].add(("dag", es, order))
            if v:
                vio.append(V("depth-wrong", {"dag": {"k": k, "edges": [list(e) for e in es], "order": order}}, v, site="dagdepth"))
                break
        if vio:
            break
    return vio


def summary_check(net):
    out = []
    sd = new_sd(net)
    sd.build()
    text = sd.summary()
    lines = text.split("\n")
    order = sorted(net.names)
    head = f"Succession Diagram with {len(sd)} nodes and depth {sd.depth()}."
    if lines[0] != head:
        out.append(("summary-header", lines[0]))
    listed = []  # (label, space, state)
    cur = None
    for ln in lines[4:]:
        if ln.startswith("minimal trap space ") or ln.startswith("motif avoidance in "):
            label = ln[:18]
            sstr = ln[19:]
            cur = (label, {order[i]: int(c) for i, c in enumerate(sstr) if c != "*"})
        elif ln.startswith("."):
            st = ln.lstrip(".")
            listed.append((cur[0], cur[1], net.state_of({order[i]: int(c) for i, c in enumerate(st)})))
    by_space = {key(sd.node_data(i)["space"]): i for i in sd.node_ids()}
    hits = []
    for label, sp, s in listed:
        a = net.attractor_of(s)
        if a is None:
            out.append(("summary-lists-transient-state", fmt_state(net, s)))
            continue
        hits.append(a)
        i = by_space.get(key(sp))
        if i is None:
            out.append(("summary-unknown-node", str(sp)))
            continue
        m = net.mask_of(sp)
        if a & ~m:
            out.append(("summary-attractor-outside-node", f"{sp} {fmt_state(net, s)}"))
        if any((a & ~net.mask_of(sd.node_data(j)["space"])) == 0 for j in sd.dag.successors(i)):
            out.append(("summary-attractor-inside-successor", f"{sp} {fmt_state(net, s)}"))
        leaf = sd.node_data(i)["expanded"] and sd.dag.out_degree(i) == 0
        if (label == "minimal trap space") != bool(leaf):
            out.append(("summary-label-wrong", f"{label} for node {i} {sp} (expanded leaf: {leaf})"))
    if len(hits) != len(set(hits)):
        out.append(("summary-attractor-listed-twice", f"{len(hits)} entries for {len(set(hits))} attractors"))
    if set(hits) != set(net.attractors):
        out.append(("summary-attractor-missing", f"{len(set(hits))} of {len(net.attractors)}"))
    out += meta_check(net, sd)
    return out, len(listed)


def run_unit(unit):
    kind, specs, mode = unit
    res = new_result()
    for spec in specs:
        net = U.resolve(spec) if kind != "dagdepth" else None
        case0 = {"net": list(spec)}
        try:
            with case_timeout(1800):
                if kind == "dagdepth":
                    vio = dagdepth_unit(spec, res)
                elif kind == "summary":
                    res["evals"] += 1
                    res["transitions"] += 2
                    vs, n = summary_check(net)
                    vio = [V(o, {"net": list(spec), "summary": True}, f"{net!r}: {d}", site="summary") for o, d in vs]
                    if n >= 2:
                        res["nontrivial"].add(repr(spec))
                    res["outcomes"].add(("summary", n))
                    res["states"] += 1
                elif kind == "strategies":
                    vio = []
                    for op in (("scc", True), ("scc", False), ("block", True, None, True), ("block", False, None, True),
                               ("block", True, None, False), ("build",), ("aseeds", None), ("min", None, None, True), ("dfs", None, None, None)):
                        sd = new_sd(net)
                        try:
                            sd, _ = apply(sd, op)
                        except RuntimeError:
                            continue
                        res["evals"] += 1
                        res["transitions"] += 1
                        for o, d in meta_check(net, sd):
                            vio.append(V(o, {"net": list(spec), "history": [list(op)]}, f"{net!r}: after {op}: {d}", site=op[0]))
                    res["states"] += 1
                elif kind == "deepfirst":
                    vio = deepfirst(net, spec, res)
                    if len(vio) == 0:
                        res["nontrivial"].add(repr(spec))
                else:
                    vio = explore(net, spec, kind, mode, res)
        except CaseTimeout:
            res["hangs"].append({"case": case0, "why": "exceeded time cap"})
            res["caps"].append({"net": list(spec), "cap": "time"})
            continue
        except Exception as e:
            vio = [V("exception", {"net": list(spec), "summary": kind == "summary"}, f"{type(e).__name__}: {e}", site=kind)]
        seen = set()
        for v in sorted(vio, key=lambda v: len(str(v["case"]))):
            if (v["oracle"], v["site"]) not in seen:
                seen.add((v["oracle"], v["site"]))
                res["violations"].append(v)
        if len(res["samples"]) < 2:
            res["samples"].append({"net": net.bnet(), "kind": kind, "mode": str(mode)} if net is not None else {"kind": kind, "dag_family": list(spec)})
    return res


def replay(case):
    if "dag" in case:
        from ..dagdepth import check_dag
        from biobalm import SuccessionDiagram
        sd0 = SuccessionDiagram.from_rules("A, A")
        d = case["dag"]
        v, _ = check_dag(lambda: sd0, d["k"], tuple(tuple(e) for e in d["edges"]), d["order"])
        return [V("depth-wrong", case, v, site="dagdepth")] if v else []
    net = U.resolve(case["net"])
    out = []
    try:
        with case_timeout(120):
            if case.get("summary"):
                vs, _ = summary_check(net)
                return [V(o, case, d, site="summary") for o, d in vs]
            hist = [tuple(tuple(map(tuple, x)) if isinstance(x, list) else x for x in o) for o in case["history"]]
            sd = replay_hist(net, hist)
            for o, d in meta_check(net, sd) + find_node_check(net, sd):
                out.append(V(o, case, d))
            if "other" in case:
                h2 = [tuple(tuple(map(tuple, x)) if isinstance(x, list) else x for x in o) for o in case["other"]]
                sd2 = replay_hist(net, h2)
                a, b = structure(sd), structure(sd2)
                ea = {(k, c) for k, (e, s, ch) in a.items() for c, _ in ch}
                eb = {(k, c) for k, (e, s, ch) in b.items() for c, _ in ch}
                if sd.is_subgraph(sd2) != (set(a) <= set(b) and ea <= eb):
                    out.append(V("is-subgraph-wrong", case, ""))
                if sd.is_isomorphic(sd2) != (set(a) == set(b) and ea == eb):
                    out.append(V("is-isomorphic-wrong", case, ""))
    except CaseTimeout:
        out.append(V("terminates", case, "hang"))
    except Exception as e:
        out.append(V("exception", case, f"{type(e).__name__}: {e}"))
    return out
