"""C15 — early stops and limit errors leave a valid, resumable diagram (DESIGN §3 C15).

Deviation-bounded enumeration: for every (network, prior state, operation) the single deviations are (a) every limit value
at which the operation can stop, (b) every value of a configured resource limit, (c) every clingo ground/solve call of
the operation at which a RuntimeError is injected. After each stop the diagram is judged and the operation resumed."""
from __future__ import annotations

from .common import *  # noqa
from .. import universe as U
from ..explorer import Explorer, full_ops, targets_of
from ..drv import replay as replay_hist, structure, dump
from ..inv import structure_check, cache_check, seeds_check, own_attractors
from ..faults import INJ
from . import c04
from .c03 import min_oracle

ID = "C15"
LEVEL = "fault_enumeration"
CONFIG = {"minimum_simulation_budget": 1}

PLAIN = {"succ", "bfs", "dfs", "aseeds", "target", "pnet", "seeds", "sets", "cand", "reclaim", "pickle"}


def is_plain(op):
    if op[0] in PLAIN:
        return True
    if op[0] == "min":
        return not op[3]
    if op[0] == "block":
        return not op[3]
    return False


def relaxed(op):
    k = op[0]
    if k in ("bfs", "dfs"):
        return (k, op[1], None, None)
    if k == "min":
        return (k, op[1], None, op[3])
    if k == "aseeds":
        return (k, None)
    if k == "target":
        return (k, op[1], None)
    if k == "block":
        return (k, op[1], None, op[3]) + tuple(op[4:])
    return op


RESUMABLE = {"bfs", "dfs", "min", "aseeds", "target", "seeds", "sets", "cand", "succ"}


def has_limit(op):
    return relaxed(op) != op


def limited_ops(net, sd):
    nfull = len(net.sd[0])
    maxdepth = 4
    sizes = list(range(1, nfull + 2))
    for n in sd.node_ids():
        for sl in sizes:
            yield ("bfs", n, None, sl)
            yield ("dfs", n, None, sl)
            yield ("min", n, sl, False)
            yield ("min", n, sl, True)
        for lv in range(0, maxdepth):
            yield ("bfs", n, lv, None)
            yield ("dfs", n, lv, None)
        yield ("bfs", n, 0, 2)
        yield ("dfs", n, 1, 2)
    for sl in sizes:
        yield ("aseeds", sl)
        for maa in (True, False):
            for opt in (True, False):
                yield ("block", maa, sl, opt)
        for t in targets_of(net, "nodes"):
            yield ("target", key(t), sl)


def fault_ops(net, sd, tier):
    ids = list(sd.node_ids())
    for n in ids:
        yield ("succ", n)
        yield ("skip", n)
        yield ("seeds", n)
        yield ("sets", n)
        yield ("cand", n, True, True)
        yield ("cand", n, False, False)
    yield ("bfs", 0, None, None)
    yield ("dfs", 0, None, None)
    yield ("min", 0, None, False)
    yield ("min", 0, None, True)
    yield ("aseeds", None)
    yield ("block", True, None, True)
    yield ("block", False, None, False)
    yield ("block", True, None, True, True)
    yield ("scc", True)
    yield ("scc", False)
    yield ("skiprem",)
    yield ("build",)
    for t in targets_of(net, "nodes")[:3 if tier == "quick" else 100]:
        yield ("target", key(t), None)


def config_deviations(net):
    """(config key, value, ops)"""
    nodes, edges, rootk = net.sd
    maxmot = 1
    for k in nodes:
        maxmot = max(maxmot, sum(len(m) for (a, b), m in edges.items() if a == k))
    for v in range(1, maxmot + 2):
        for op in (("succ", 0), ("bfs", 0, None, None), ("dfs", 0, None, None), ("min", 0, None, False), ("aseeds", None),
                   ("block", True, None, True), ("block", False, None, False), ("scc", True), ("build",)):
            yield ("max_motifs_per_node", v, op)
    maxc = min(4, max(2, len(net.attractors) + 1))
    for v in range(0, maxc + 1):
        for op in (("cand", 0, True, True), ("cand", 0, False, False), ("seeds", 0), ("sets", 0), ("block", True, None, True),
                   ("scc", True), ("build",), ("aseeds", None)):
            yield ("attractor_candidates_limit", v, op)
    for v in (0, 1, 2):
        for op in (("cand", 0, True, True), ("seeds", 0), ("build",)):
            yield ("retained_set_optimization_threshold", v, op)


def plan(tier, seed):
    K = U.kernel()
    U2 = U.U2c_indices() if tier == "quick" else list(range(256))
    units, unis = [], {}
    kn = [("k", k) for k, n in K.items() if n.n <= 4]
    u2 = [("idx", 2, i) for i in U2]
    d = 1 if tier == "quick" else 2
    def depth_for(spec):
        sz = c04.sd_size(spec)
        if tier == "quick":
            return 1 if sz <= 5 else 0
        return 2 if sz <= 3 else (1 if sz <= 7 else 0)
    for spec in kn:
        units.append(("K", [spec], depth_for(spec), tier))
    for ch in U.chunks([x for x in u2 if c04.sd_size(x) >= 4], 2):
        units.append(("U2", ch, depth_for(ch[0]) if tier != "quick" else 1, tier))
    for ch in U.chunks([x for x in u2 if c04.sd_size(x) == 3], 3):
        units.append(("U2", ch, depth_for(ch[0]) if tier != "quick" else 0, tier))
    for ch in U.chunks([x for x in u2 if c04.sd_size(x) < 3], 6):
        units.append(("U2", ch, 2 if tier != "quick" else 0, tier))
    unis["K(n<=4)"] = len(kn)
    unis["U2c" if tier == "quick" else "U2"] = len(u2)
    i3 = [("i3", i) for i in (U.shard(list(range(1444)), seed, 16) if tier == "quick" else range(1444))]
    unis["I3" + ("[/16]" if tier == "quick" else "")] = len(i3)
    for ch in U.chunks(i3, 6):
        units.append(("I3", ch, 0, tier))
    f3 = [("idx", 3, i) for i in U.shard(U.F3_indices(True), seed, 128 if tier == "quick" else 16)]
    f3 += [("idx", 3, i) for i in U.shard(U.catalogue("maa"), seed, 2048 if tier == "quick" else 256)]
    f3 += [("idx", 3, i) for i in U.shard(U.catalogue("multi"), seed, 16 if tier == "quick" else 2)]
    unis["F3c/MAA3/MULTI3 shards"] = len(f3)
    for ch in U.chunks(f3, 6):
        units.append(("F3", ch, 0, tier))
    big = [("k", k) for k, n in K.items() if n.n > 4]
    for spec in big:
        units.append(("Kbig", [spec], 0, tier))
    unis["K(n>4)"] = len(big)
    units.sort(key=lambda u: (-u[2], u[0] != "K"))
    return {
        "units": units, "universes": unis,
        "bounds": {"prior states": f"fresh diagram; every state reachable by {d} call(s) of the full alphabet on K and U2 (quick: U2 members with |SD|>=4 only)",
                   "limit values": "size limit 1..|full diagram|+1, level/stack limit 0..3, on bfs/dfs/minimal(both)/aseeds/target/block(4)",
                   "config limits": "max_motifs_per_node 1..max+1; attractor_candidates_limit 0..4; retained_set_optimization_threshold 0..2",
                   "fault points": "every clingo ground()/solve() call (index k=0..K-1) of every operation of the fault menu",
                   "deviations": "single deviations (one limit, one config value or one fault) per execution"},
        "rule": "after every early stop (False return, RuntimeError from a limit, injected solver failure) the diagram is checked "
                "(no stub with successors; expanded nodes complete: reference-faithful for plain histories, equal to the "
                "uninterrupted run's otherwise; cache invariant) and the operation re-run relaxed must equal the uninterrupted run; "
                "non-trivial = distinct (network, history, deviation) whose operation really stopped early",
        "assumptions": ["a solver failure is modelled as a RuntimeError raised by clingo.Control.ground/solve",
                        "configuration: defaults except minimum_simulation_budget=1"],
        "unit_timeout": 3000,
    }


def seeds_identity(net, sd):
    """{space key: sorted attractor masks of known seeds} for expanded nodes"""
    out = {}
    for i in sd.expanded_ids():
        seeds = sd.node_attractor_seeds(i, compute=True)
        out[key(sd.node_data(i)["space"])] = sorted(net.attractor_of(net.state_of(s)) or -1 for s in seeds if len(s) == net.n)
    return out


def _contains(big, small):
    """children tuple ((child, motifs), ...): every child / motif occurrence of small is in big"""
    b = dict(big)
    for c, ms in small:
        if c not in b:
            return False
        rest = list(b[c])
        for m in ms:
            if m not in rest:
                return False
            rest.remove(m)
    return True


def stop_state_checks(net, sd, F, plain_hist, P=None):
    """sd: diagram after the stop; F: structure of the uninterrupted run; P: structure before the operation started.
    A node newly expanded by the interrupted operation must have exactly the successors/motifs it has at the end of the
    uninterrupted run; a node that was already expanded before may only have gained what the uninterrupted run also adds
    (shortcut strategies re-attach edges to expanded nodes)."""
    out = []
    out += structure_check(net, sd, faithful=plain_hist)
    S = structure(sd)
    P = P or {}
    for sp, (exp, skipped, ch) in S.items():
        if not exp:
            continue
        if sp in F and F[sp][0]:
            before = sp in P and P[sp][0]
            if before:
                if not (_contains(ch, P[sp][2]) and _contains(F[sp][2], ch)):
                    out.append(("expanded-node-changed-inconsistently", f"node {sp}: {ch}; before {P[sp][2]}; uninterrupted {F[sp][2]}"))
            elif ch != F[sp][2]:
                out.append(("expanded-node-incomplete", f"node {sp}: successors/motifs {ch} but the uninterrupted run has {F[sp][2]}"))
        elif not plain_hist:
            if sp not in F:
                out.append(("expanded-node-unknown-to-uninterrupted-run", f"{sp}"))
        if skipped:
            got = {c for c, _ in ch}
            need = {key(m) for m in net.min_traps_in(dict(sp))}
            if not need <= got:
                out.append(("skip-node-misses-minimal-trap", f"{sp}: {sorted(need - got)}"))
    out += cache_check(net, sd)
    return out


def compare_runs(net, R, Fsd):
    out = []
    if structure(R) != structure(Fsd):
        out.append(("resumed-diagram-differs", f"{sorted(structure(R).items())[:6]} vs {sorted(structure(Fsd).items())[:6]}"))
    return out


def run_one(net, prefix, op, dev, F_cache, res):
    """dev: ('limit',) | ('fault', k) | ('config', key, value). Returns (violations, stopped_early, K)"""
    out = []
    plain_hist = all(is_plain(o) for o in prefix) and is_plain(op)
    cfg = dict(CONFIG)
    if dev[0] == "config":
        cfg[dev[1]] = dev[2]
    sd = replay_hist(net, prefix, CONFIG)
    Pst = structure(sd)
    if dev[0] == "config":
        sd.config[dev[1]] = dev[2]
    rop = relaxed(op)
    fk = (tuple(prefix), rop)
    if fk not in F_cache:
        Fsd = replay_hist(net, list(prefix), CONFIG)
        try:
            Fsd, Fret = apply(Fsd, rop)
        except Exception as e:
            F_cache[fk] = None
            return [("uninterrupted-run-raised", f"{rop}: {type(e).__name__}: {e}")], False, 0
        F_cache[fk] = (Fsd, Fret, structure(Fsd))
    if F_cache[fk] is None:
        return [], False, 0
    Fsd, Fret, F = F_cache[fk]
    INJ.arm(dev[1] if dev[0] == "fault" else None)
    err = None
    ret = None
    try:
        sd2, ret = apply(sd, op)
        if sd2 is not sd:
            sd = sd2
    except RuntimeError as e:
        err = e
    except Exception as e:
        K = INJ.disarm()
        return [("unexpected-exception-type", f"{op} {dev}: {type(e).__name__}: {e}")], True, K
    K = INJ.disarm()
    res["transitions"] += 1
    stopped = err is not None or (ret is False and op[0] in ("bfs", "dfs", "min", "aseeds", "target", "block", "scc"))
    stubs_after = list(sd.stub_ids())
    if err is not None and dev[0] == "limit":
        out.append(("limit-raised-instead-of-returning", f"{op}: {err}"))
    if err is not None and dev[0] == "fault" and "injected" not in str(err) and "Exceeded" not in str(err):
        out.append(("unexpected-runtime-error", f"{op} {dev}: {err}"))
    if dev[0] == "config":
        sd.config[dev[1]] = SD_DEFAULT[dev[1]]
    if stopped:
        for o, d in stop_state_checks(net, sd, F, plain_hist, Pst):
            out.append((o, f"after {op} stopped ({'error: ' + str(err)[:60] if err else 'returned False'}): {d}"))
        if op[0] in RESUMABLE:
            try:
                R, rret = apply(sd, rop)
                res["transitions"] += 1
                if op[0] in ("seeds", "sets", "cand"):
                    exp = own_attractors(net, R, op[1])
                    if op[0] == "seeds":
                        hit = sorted(net.attractor_of(net.state_of(s)) or -1 for s in rret)
                        ok = (hit == sorted(exp)) if not R.node_data(op[1])["skipped"] else set(hit) <= set(exp)
                        if not ok:
                            out.append(("resumed-query-wrong", f"{op}: seeds {rret}"))
                    out += [(o, "after resumed query: " + d) for o, d in cache_check(net, R)]
                else:
                    if rret != Fret:
                        out.append(("resumed-return-differs", f"{rop}: {rret} vs uninterrupted {Fret}"))
                    out += compare_runs(net, R, Fsd)
                    if plain_hist and seeds_identity(net, R) != seeds_identity(net, Fsd):
                        out.append(("resumed-attractors-differ", f"{rop}"))
            except Exception as e:
                out.append(("resume-raised", f"{rop} after stopped {op}: {type(e).__name__}: {e}"))
    else:
        # completed: the contract of a True return
        if ret is True and op[0] in ("bfs", "dfs"):  # whatever the limits: True means the whole sub-diagram was explored
            import networkx as nx
            start = op[1] if op[1] is not None else 0
            reach = {start} | set(nx.descendants(sd.dag, start))
            stubs = [i for i in reach if not sd.node_data(i)["expanded"]]
            if stubs:
                out.append(("true-return-but-stub-reachable", f"{op}: stubs {stubs}"))
        if ret is True and op[0] == "target":
            # target-directed expansion: True means every node that is reachable through expanded nodes, intersects the
            # target and is not strictly inside it has been expanded
            from ..refmodel import consistent
            tgt = dict(op[1])
            seen, todo = {0}, [0]
            while todo:
                x = todo.pop()
                sp = sd.node_data(x)["space"]
                relevant = consistent(sp, tgt) and not (sub(sp, tgt) and sp != tgt)
                if not sd.node_data(x)["expanded"]:
                    if relevant:
                        out.append(("true-return-but-relevant-stub", f"{op}: node {x} {sp} intersects the target, is not inside it, and is unexpanded"))
                        break
                    continue
                if not relevant:
                    continue
                for y in sd.dag.successors(x):
                    if y not in seen:
                        seen.add(y)
                        todo.append(y)
        if ret is True and op[0] == "min" and op[3] and op[2] is None:
            # minimal-space expansion with skip_ignored and no size limit: every node it leaves unexpanded is skipped
            import networkx as nx
            start = op[1] if op[1] is not None else 0
            reach = {start} | set(nx.descendants(sd.dag, start))
            stubs = [i for i in reach if not sd.node_data(i)["expanded"]]
            if stubs:
                out.append(("true-return-but-stub-reachable", f"{op}: stubs {stubs} neither expanded nor skipped"))
        # (block / scc promise completion only when started on a fresh diagram: they do not descend below nodes that
        # were expanded before; C03 lists bfs, dfs, minimal and attractor-seed expansion as resumable from any state)
        if ret is True and (op[0] in ("aseeds",) or (op[0] == "min" and op[1] in (None, 0)) or (op[0] in ("block", "scc") and not prefix)):
            for o, d in min_oracle(net, sd):
                out.append(("true-return-" + o, f"{op}: {d}"))
    if ret is False and op[0] in ("bfs", "dfs", "min", "aseeds", "target", "block") and dev[0] == "limit":
        only_size = (op[0] in ("bfs", "dfs") and op[2] is None) or op[0] not in ("bfs", "dfs")
        if only_size and not stubs_after:
            out.append(("false-return-on-complete-diagram", f"{op} returned False but no unexpanded node remains"))
    return out, stopped, K


SD_DEFAULT = None


def explore_net(net, spec, depth, tier, res):
    global SD_DEFAULT
    from biobalm import SuccessionDiagram
    SD_DEFAULT = SuccessionDiagram.default_config()
    SD_DEFAULT.update(CONFIG)
    INJ.install()
    vio = []
    prefixes = [()]
    if depth:
        ex = Explorer(net, lambda n, s: full_ops(n, s), None, config=CONFIG, max_states=400 if depth < 2 else 150)
        prefixes = [h for h in ex.run(depth=depth)]
        if ex.capped:
            res["caps"].append({"net": repr(net)[:80], "cap": "max_states"})
        res["states"] += len(ex.states)
        res["transitions"] += ex.transitions
    else:
        res["states"] += 1
    F_cache = {}

    def record(vs, prefix, op, dev):
        for o, d in vs:
            vio.append(V(o, {"net": list(spec), "prefix": [list(x) for x in prefix], "op": list(op), "dev": list(dev)},
                         f"{net!r}: prefix {prefix}: {d}", site=op[0] + ":" + dev[0]))

    for prefix in prefixes:
        F_cache.clear()
        base = replay_hist(net, prefix, CONFIG)
        # (a) limit values
        for op in limited_ops(net, base):
            res["evals"] += 1
            vs, stopped, _ = run_one(net, prefix, op, ("limit",), F_cache, res)
            if stopped:
                res["nontrivial"].add((repr(spec), prefix, op))
            record(vs, prefix, op, ("limit",))
        # (c) solver faults at every call index
        for op in fault_ops(net, base, tier):
            res["evals"] += 1
            vs, stopped, K = run_one(net, prefix, op, ("fault", None), F_cache, res)
            record(vs, prefix, op, ("fault", None))
            count(res, "fault_points", K)
            for k in range(K):
                res["evals"] += 1
                vs, stopped, _ = run_one(net, prefix, op, ("fault", k), F_cache, res)
                if stopped:
                    res["nontrivial"].add((repr(spec), prefix, op, k))
                else:
                    count(res, "fault_swallowed_by_operation")
                record(vs, prefix, op, ("fault", k))
        # (b) configured limits (fresh and prior states alike)
        if len(prefix) == 0 or tier != "quick":
            for ck, cv, op in config_deviations(net):
                res["evals"] += 1
                vs, stopped, _ = run_one(net, prefix, op, ("config", ck, cv), F_cache, res)
                if stopped:
                    res["nontrivial"].add((repr(spec), prefix, op, ck, cv))
                record(vs, prefix, op, ("config", ck, cv))
    res["traces"] = res["evals"]
    return vio


def run_unit(unit):
    uname, specs, depth, tier = unit
    res = new_result()
    for spec in specs:
        net = U.resolve(spec)
        try:
            with case_timeout(2400):
                vio = explore_net(net, spec, depth, tier, res)
        except CaseTimeout:
            INJ.disarm()
            res["hangs"].append({"case": {"net": list(spec)}, "why": "exceeded time cap"})
            res["caps"].append({"net": list(spec), "cap": "time"})
            continue
        seen = set()
        for v in sorted(vio, key=lambda v: len(str(v["case"]))):
            if (v["oracle"], v["site"]) not in seen:
                seen.add((v["oracle"], v["site"]))
                res["violations"].append(v)
        if len(res["samples"]) < 2:
            res["samples"].append({"net": net.bnet(), "prior_state_depth": depth})
    return res


def _t(o):
    return tuple(tuple(map(tuple, x)) if isinstance(x, list) and x and isinstance(x[0], list) else (tuple(x) if isinstance(x, list) else x) for x in o)


def replay(case):
    global SD_DEFAULT
    from biobalm import SuccessionDiagram
    SD_DEFAULT = SuccessionDiagram.default_config()
    SD_DEFAULT.update(CONFIG)
    INJ.install()
    net = U.resolve(case["net"])
    prefix = tuple(_t(o) for o in case["prefix"])
    op = _t(case["op"])
    dev = tuple(case["dev"])
    res = new_result()
    try:
        with case_timeout(300):
            vs, _, _ = run_one(net, prefix, op, dev, {}, res)
    except CaseTimeout:
        return [V("terminates", case, "hang")]
    return [V(o, case, d) for o, d in vs]
