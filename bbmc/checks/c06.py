"""C06 — every intervention reported successful really forces the network into the target (DESIGN §3 C06)."""
from __future__ import annotations

import itertools
from .common import *  # noqa
from .. import universe as U
from ..ctlref import override_forces
from ..explorer import Explorer, full_ops, targets_of
from ..drv import replay as replay_hist
from ..inv import fmt_state
from . import c04

ID = "C06"
LEVEL = "model_checking"
CONFIG = {"minimum_simulation_budget": 1}


def universes(tier, seed):
    out = [("U2", [("idx", 2, i) for i in (U.U2c_indices() if tier == "quick" else range(256))], "all", 1 if tier == "quick" else 2),
           ("K", [("k", k) for k, n in U.kernel().items() if n.n <= 4], "nodes", 1 if tier == "quick" else 2),
           ("Kbig", [("k", k) for k, n in U.kernel().items() if n.n > 4], "nodes", 0)]
    if tier == "quick":
        out.append((f"I3[{seed % 32}/32]", [("i3", i) for i in U.shard(list(range(1444)), seed, 32)], "all", 0))
        out.append((f"F3c[{seed % 64}/64]", [("idx", 3, i) for i in U.shard(U.F3_indices(True), seed, 64)], "all", 0))
    else:
        out.append(("I3", [("i3", i) for i in range(1444)], "all", 0))
        out.append((f"F3c[{seed % 8}/8]", [("idx", 3, i) for i in U.shard(U.F3_indices(True), seed, 8)], "all", 0))
        out.append((f"F3c[{seed % 64}/64]", [("idx", 3, i) for i in U.shard(U.F3_indices(True), seed, 64)], "all", 1))
    return out


def plan(tier, seed):
    us = universes(tier, seed)
    units = []
    for name, specs, tmode, d in us:
        for ch in U.chunks(specs, 1 if d else 4):
            dd = d
            if tier == "quick" and d and name == "U2" and c04.sd_size(ch[0]) < 3:
                dd = 0
            if tier != "quick" and d == 2 and c04.sd_size(ch[0]) > 3:
                dd = 1
            units.append((name, ch, tmode, dd, tier))
    units.sort(key=lambda u: -u[3])
    # synthetic-diagram harness for the end-node logic (bbmc/ctldag.py)
    dd = [(4, 6, 1), (5, 6, 16)] if tier == "quick" else [(4, 6, 1), (5, 10, 32), (6, 7, 64)]
    for (k, me, nsh) in dd:
        for sh in range(nsh):
            units.append(("dag", [(k, me, sh, nsh)], None, 0, tier))
    return {
        "units": units, "universes": {**{n: len(s) for n, s, _, _ in us}, "synthetic diagrams (nodes, max edges, shards)": len(dd)},
        "bounds": {"targets": "every non-empty subspace for n <= 3; node spaces and literals for kernel networks",
                   "grid": "strategy {internal, all} x max_drivers {None,1,2} x forbidden {{}, each single variable} x "
                           "skip_feedforward_successions {False, True}",
                   "synthetic diagrams": "every DAG shape with (nodes, max edges) in " + str([(a, b) for a, b, _ in dd]) + " x every assignment of node "
                                         "ids (root = 0) x every non-empty target over the synthetic variables x {all expanded, one leaf a stub}: "
                                         "successions_to_target(expand_diagram=False) on a real SuccessionDiagram object carrying that DAG; and (<=5 nodes) the "
                                         "diagram growing between two queries: a stub and everything reachable only through it is expanded with the real "
                                         "_ensure_edge after a first query, then every target is queried again",
                   "prior diagram states": {n: f"fresh + every state reachable by <= {d} call(s) of the full alphabet" for n, _, _, d in us}},
        "rule": "every intervention reported successful: cumulative trap spaces nested and consistent, every override's reference LDOI "
                "contains the step's motif, every attractor of the overridden network reachable from the previous trap space has the "
                "motif's values (explicit-state search), final space consistent with the target and all its minimal trap spaces inside "
                "the target; non-trivial = distinct (network, target, state) with a successful intervention of >= 1 step",
        "assumptions": ["configuration: defaults except minimum_simulation_budget=1 for the prior-state histories"],
        "unit_timeout": 2400,
    }


def judge(net, target, iv, strategy):
    out = []
    assume = {}
    T = net.percolate({})
    if not net.is_trap(T):
        out.append(("oracle-self-check", "root not trap"))
    for step, (m, ctrl) in enumerate(zip(iv.succession, iv.control)):
        full_m = dict(m)
        for D in ctrl:
            sp = dict(D)
            sp.update(assume)
            l = net.percolate(sp)
            if not all(l.get(k) == v for k, v in m.items()):
                out.append(("override-ldoi-misses-motif", f"step {step} motif {m} override {D} (fixed so far {assume})"))
                continue
            # values fixed by earlier steps take precedence: an override that contradicts them is not applied to those variables
            Deff = {k: v for k, v in D.items() if k not in assume or assume[k] == v}
            w = override_forces(net, Deff, T, m)
            if w is not None:
                out.append(("override-does-not-force-motif", f"step {step} motif {m} override {D}: the overridden network has an attractor "
                            f"reachable from {T} containing state {fmt_state(net, w)}"))
        sp = dict(m)
        sp.update(assume)
        newT = net.percolate(sp)
        if not sub(newT, T):
            out.append(("succession-not-nested", f"step {step}: {newT} not inside {T}"))
        if not net.is_trap(newT):
            out.append(("succession-space-not-trap", f"step {step}: {newT}"))
        assume = newT
        T = newT
    from ..refmodel import consistent
    if not consistent(T, target):
        out.append(("final-space-inconsistent-with-target", f"{T} vs {target}"))
    bad = [mn for mn in net.min_traps if sub(mn, T) and not sub(mn, target)]
    if bad:
        out.append(("final-space-contains-minimal-trap-outside-target", f"{T}: {bad[0]}"))
    return out


def check_state(net, spec, prefix, tmode, res, tier):
    from biobalm.control import succession_control
    vio = []
    forbs = [set()] + [{nm} for nm in net.names]
    for target in targets_of(net, tmode):
        for strategy in ("internal", "all"):
            for maxd in (None, 1, 2):
                for forb in forbs:
                    for sff in (False, True):
                        if tier == "quick" and prefix and (maxd is not None or (forb and sff)):
                            continue
                        args = [strategy, maxd, sorted(forb), sff]
                        sd = replay_hist(net, prefix, CONFIG)
                        res["evals"] += 1
                        try:
                            ivs = succession_control(sd, dict(target), strategy=strategy, max_drivers_per_succession_node=maxd,
                                                     forbidden_drivers=set(forb), successful_only=True, skip_feedforward_successions=sff)
                        except Exception as e:
                            vio.append(V("exception", {"net": list(spec), "prefix": [list(x) for x in prefix], "target": key(target), "args": args},
                                         f"{net!r}: {type(e).__name__}: {e}", site="exception"))
                            continue
                        for iv in ivs:
                            if not iv.successful:
                                vio.append(V("unsuccessful-returned-with-successful-only", {"net": list(spec), "prefix": [list(x) for x in prefix], "target": key(target), "args": args}, "", site="flag"))
                                continue
                            if len(iv.succession) >= 1:
                                res["nontrivial"].add((repr(spec), key(target), prefix))
                            for o, d in judge(net, target, iv, strategy):
                                vio.append(V(o, {"net": list(spec), "prefix": [list(x) for x in prefix], "target": key(target), "args": args},
                                             f"{net!r}: after {prefix}, target {target}, {args}: {d}", site=o))
    return vio


def run_dag_unit(spec, res):
    from ..ctldag import check_shape, check_growth
    from ..dagdepth import dags
    k, me, sh, nsh = spec
    vio = []
    # probe: the harness builds SuccessionDiagram objects around synthetic DAGs through private fields; if a refactoring
    # changed those, the harness does not apply any more - skip it (counted) rather than raise an alarm
    try:
        probe = new_result()
        if check_shape(2, ((0, 1),), probe) is not None:
            raise RuntimeError("probe diagram judged unsound")
    except Exception as e:  # noqa
        count(res, "synthetic_harness_skipped_probe_failed")
        res["caps"].append({"harness": "ctldag", "cap": f"skipped: probe failed with {type(e).__name__}"})
        return vio
    for idx, es in enumerate(dags(k, me)):
        if idx % nsh != sh:
            continue
        v = check_shape(k, es, res)
        if v is None and k <= 5:
            v = check_growth(k, es, res)
        res["states"] += 1
        if len(es) >= k:
            res["nontrivial"].add(("dag", es))
        if v:
            vio.append(V("succession-ends-in-node-with-hot-descendant", {"dag": {"k": k, "edges": [list(e) for e in es]}}, v, site="dag"))
            break
    return vio


def run_unit(unit):
    uname, specs, tmode, depth, tier = unit
    res = new_result()
    if uname == "dag":
        for spec in specs:
            res["violations"] += run_dag_unit(spec, res)
        res["transitions"] = res["evals"]
        res["traces"] = res["evals"]
        res["samples"].append({"kind": "synthetic diagram family", "spec": list(specs[0])})
        return res
    for spec in specs:
        net = U.resolve(spec)
        res["states"] += net.N
        try:
            with case_timeout(2200):
                if depth:
                    ex = Explorer(net, lambda n, s: full_ops(n, s), None, config=CONFIG, max_states=200 if depth < 2 else 60)
                    prefixes = ex.run(depth=depth)
                    if ex.capped:
                        res["caps"].append({"net": repr(net)[:80], "cap": "max_states"})
                    res["states"] += len(ex.states)
                    res["transitions"] += ex.transitions
                    # an earlier control query on the same diagram is a prior state too (it expands towards another target
                    # and may leave derived data behind)
                    for t in targets_of(net, "nodes"):
                        for strat in ("internal",):
                            prefixes.append((("control", key(t), strat, None, (), True),))
                else:
                    prefixes = [()]
                vio = []
                for p in prefixes:
                    vio += check_state(net, spec, p, tmode, res, tier)
        except CaseTimeout:
            res["hangs"].append({"case": {"net": list(spec)}, "why": "exceeded 2200 s"})
            res["caps"].append({"net": list(spec), "cap": "time"})
            continue
        best = {}
        for v in vio:
            k = v["oracle"]
            if k not in best or len(str(v["case"])) < len(str(best[k]["case"])):
                best[k] = v
        res["violations"] += list(best.values())
        if len(res["samples"]) < 2:
            res["samples"].append({"net": net.bnet(), "prior_state_depth": depth})
    res["transitions"] += res["evals"]
    res["traces"] = res["evals"]
    return res


def _t(o):
    return tuple(tuple(map(tuple, x)) if isinstance(x, list) and x and isinstance(x[0], list) else (tuple(x) if isinstance(x, list) else x) for x in o)


def replay(case):
    from biobalm.control import succession_control
    if "dag" in case:
        from ..ctldag import check_shape, check_growth
        es_ = tuple(tuple(e) for e in case["dag"]["edges"])
        v = check_shape(case["dag"]["k"], es_, new_result()) or check_growth(case["dag"]["k"], es_, new_result())
        return [V("succession-ends-in-node-with-hot-descendant", case, v, site="dag")] if v else []
    net = U.resolve(case["net"])
    prefix = tuple(_t(o) for o in case["prefix"])
    target = dict(map(tuple, case["target"]))
    strategy, maxd, forb, sff = case["args"]
    out = []
    sd = replay_hist(net, prefix, CONFIG)
    ivs = succession_control(sd, dict(target), strategy=strategy, max_drivers_per_succession_node=maxd, forbidden_drivers=set(forb),
                             successful_only=True, skip_feedforward_successions=sff)
    for iv in ivs:
        for o, d in judge(net, target, iv, strategy):
            out.append(V(o, case, d, site=o))
    return out
