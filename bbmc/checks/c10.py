"""C10 — Petri-net encoding and network reduction preserve the asynchronous dynamics (DESIGN §3 C10)."""
from __future__ import annotations

import itertools
import re
from .common import *  # noqa
from .. import universe as U
from ..drv import bn_of
from ..refmodel import net_from_bn

ID = "C10"
LEVEL = "model_checking"


def universes(tier, seed):
    out = [("U1", [("idx", 1, i) for i in range(4)]), ("U2", [("idx", 2, i) for i in range(256)])]
    from ..refmodel import net_from_index
    u2f = []
    for i in range(256):
        for v in U.with_free_inputs(net_from_index(2, i)):
            u2f.append(("fi", 2, i, sorted(v.inputs)))
    out.append(("U2f", u2f))
    out.append(("K", [("k", k) for k in U.kernel()]))
    out.append(("MULTI3", [("idx", 3, i) for i in U.catalogue("multi")]))
    if tier == "quick":
        out.append((f"F3[{seed % 8}/8]", [("idx", 3, i) for i in U.shard(U.F3_indices(False), seed, 8)]))
    else:
        out.append(("F3", [("idx", 3, i) for i in U.F3_indices(False)]))
        out.append((f"MAA3[{seed % 8}/8]", [("idx", 3, i) for i in U.shard(U.catalogue("maa"), seed, 8)]))
        out.append(("P4c", [("p4", a, b) for a, b in U.P4_pairs(True)]))
    return out


def plan(tier, seed):
    us = universes(tier, seed)
    units = []
    for name, specs in us:
        for ch in U.chunks(specs, 40):
            units.append((name, ch, tier))
    models = U.bbm_models()
    for ch in U.chunks(models, 6):
        units.append(("BBM", ch, tier))
    maxin = 12 if tier == "quick" else 16
    return {
        "units": units, "universes": {**{n: len(s) for n, s in us}, "BBM": len(models)},
        "bounds": {"small networks": "every state x variable x direction; every one of the 3^n subspaces (restriction, "
                   "chained restriction through every sub-chain for n<=3); every reference trap space x remove_constants",
                   "BBM": f"every variable with <= {maxin} inputs: all 2^(k+1) valuations of its support and itself"},
        "rule": "explicit enumeration of each network's (or each update function's local) state space; non-trivial = distinct "
                "update function (truth table / model variable) with >= 2 inputs",
        "assumptions": ["BBM update functions are evaluated by an independent evaluator (Python boolean expressions "
                        "translated from the .bnet text)"],
        "unit_timeout": 1800,
    }


def transitions_of(pn):
    """[(var, 'up'|'down', {var: val})] including the changed variable's own precondition"""
    out = []
    for t, d in pn.nodes(data=True):
        if d.get("kind") != "transition":
            continue
        cond = {}
        bad = None
        for p in pn.predecessors(t):
            nm, pos = p[3:], p.startswith("b1_")
            if nm in cond and cond[nm] != int(pos):
                bad = nm
            cond[nm] = int(pos)
        out.append((d["change"], d["direction"], cond, bad, t))
    return out


def enabled(trs, state, var, direction):
    for v, dr, cond, bad, _ in trs:
        if v == var and dr == direction and bad is None and all(state[x] == val for x, val in cond.items()):
            return True
    return False


def places_of(pn):
    return sorted(n for n, d in pn.nodes(data=True) if d.get("kind") == "place")


def check_small(net, spec, res):
    from biobalm.petri_net_translation import network_to_petrinet, restrict_petrinet_to_subspace
    from biobalm.space_utils import percolate_network
    from biodivine_aeon import AsynchronousGraph
    vio = []

    def rep(oracle, what, detail):
        vio.append(V(oracle, {"net": list(spec), "what": what}, f"{net!r}: {detail}", site=what[0]))

    bn = bn_of(net).infer_valid_graph()
    pn = network_to_petrinet(bn)
    trs = transitions_of(pn)
    # (a0) the documented module option DEBUG (logging to stdout) must not change the encoding (wave-5 change C10-w5-2)
    import contextlib
    import io
    import biobalm.petri_net_translation as pnt
    old_debug = pnt.DEBUG
    try:
        pnt.DEBUG = True
        with contextlib.redirect_stdout(io.StringIO()):
            pn_dbg = network_to_petrinet(bn)
    finally:
        pnt.DEBUG = old_debug
    res["evals"] += 1
    if sorted(map(str, pn_dbg.nodes(data=True))) != sorted(map(str, pn.nodes(data=True))) or sorted(pn_dbg.edges()) != sorted(pn.edges()):
        rep("petri-net-depends-on-debug-flag", ["pn-debug"], f"{pn_dbg.number_of_nodes()} nodes / {pn_dbg.number_of_edges()} edges with DEBUG=True, "
            f"{pn.number_of_nodes()} / {pn.number_of_edges()} without")
    # (a) enabledness on every state
    for s in range(net.N):
        d = net.dict_of(s)
        for i, nm in enumerate(net.names):
            b = (s >> i) & 1
            for dr in ("up", "down"):
                res["evals"] += 1
                exp = (b == 0 and net.f(i, s) == 1) if dr == "up" else (b == 1 and net.f(i, s) == 0)
                if enabled(trs, d, nm, dr) != exp:
                    rep("petri-net-enabledness", ["pn", s, nm, dr], f"state {d} var {nm} {dr}: expected {exp}")
    for v, dr, cond, bad, t in trs:
        if bad is not None:
            rep("petri-net-contradictory-transition", ["pn-tr", t], f"{t} requires both values of {bad}")
        if cond.get(v) != (0 if dr == "up" else 1):
            rep("petri-net-transition-without-own-precondition", ["pn-tr", t], f"{t}: {cond}")
    # (b) restriction to every subspace
    restricted = {}
    for sp, m in net.spaces:
        rp = restrict_petrinet_to_subspace(pn, sp)
        restricted[key(sp)] = rp
        free = [nm for nm in net.names if nm not in sp]
        exp_places = sorted([f"b0_{x}" for x in free] + [f"b1_{x}" for x in free])
        res["evals"] += 1
        if places_of(rp) != exp_places:
            rep("restriction-places", ["restrict", key(sp)], f"{places_of(rp)} vs {exp_places}")
            continue
        rt = transitions_of(rp)
        from ..refmodel import bits
        for s in bits(m):
            d = net.dict_of(s)
            for i, nm in enumerate(net.names):
                if nm in sp:
                    continue
                b = (s >> i) & 1
                for dr in ("up", "down"):
                    exp = (b == 0 and net.f(i, s) == 1) if dr == "up" else (b == 1 and net.f(i, s) == 0)
                    if enabled(rt, d, nm, dr) != exp:
                        rep("restriction-enabledness", ["restrict", key(sp), s, nm, dr], f"space {sp} state {d} {nm} {dr}: expected {exp}")
        if any(v in sp for v, _, _, _, _ in rt):
            rep("restriction-keeps-fixed-variable-transition", ["restrict", key(sp)], "")
    if net.n <= 3:
        import networkx as nx
        for sp1, _ in net.spaces:
            for sp2, _ in net.spaces:
                if sp1 is sp2 or not sub(sp2, sp1):
                    continue
                res["evals"] += 1
                chained = restrict_petrinet_to_subspace(restricted[key(sp1)], sp2)
                direct = restricted[key(sp2)]
                if set(chained.nodes) != set(direct.nodes) or set(chained.edges) != set(direct.edges):
                    rep("restriction-chain-differs", ["chain", key(sp1), key(sp2)], f"{sp1} then {sp2}")
    # (c) percolate_network on every reference trap space
    g = AsynchronousGraph(bn)
    for T in net.trap_spaces:
        P = net.percolate(T)
        pm = net.mask_of(P)
        for rc in (False, True):
            res["evals"] += 1
            for use_sym in ((True, False) if len(T) <= 1 else (True,)):
                nb = percolate_network(bn, T, g if use_sym else None, remove_constants=rc)
                names = nb.variable_names()
                exp_names = sorted(net.names) if not rc else sorted(nm for nm in net.names if nm not in P)
                if sorted(names) != exp_names:
                    rep("percolated-network-variables", ["percnet", key(T), rc], f"trap {T}: got {sorted(names)} expected {exp_names}")
                    continue
                if not names:
                    continue
                rn = net_from_bn(nb)
                from ..refmodel import bits
                for s in bits(pm):
                    d = net.dict_of(s)
                    s2 = rn.state_of({nm: d[nm] for nm in rn.names})
                    for j, nm in enumerate(rn.names):
                        got = rn.f(j, s2)
                        exp = P[nm] if nm in P else net.f(net.idx[nm], s)
                        if got != exp:
                            rep("percolated-network-dynamics", ["percnet", key(T), rc, s, nm], f"trap {T} rc={rc} state {d} var {nm}: got {got} expected {exp}")
    # (b') cached parent chain through the diagram API
    sd = new_sd(net)
    sd.expand_bfs()
    for (p, c) in list(sd.dag.edges):
        sd.node_percolated_petri_net(p, compute=True)
        got = sd.node_percolated_petri_net(c, compute=True, parent_id=p)
        direct = restrict_petrinet_to_subspace(pn, sd.node_data(c)["space"])
        res["evals"] += 1
        if len(sd.node_data(c)["space"]) < net.n and (set(got.nodes) != set(direct.nodes) or set(got.edges) != set(direct.edges)):
            rep("node-petri-net-via-parent-differs", ["sdpn", p, c], f"edge {p}->{c}")
        sd.node_data(c)["percolated_petri_net"] = None
    for i in sd.node_ids():
        if len(sd.node_data(i)["space"]) == net.n:
            continue
        nb = sd.node_percolated_network(i, compute=True)
        exp_names = sorted(nm for nm in net.names if nm not in sd.node_data(i)["space"])
        res["evals"] += 1
        if sorted(nb.variable_names()) != exp_names:
            rep("node-percolated-network-variables", ["sdbn", i], f"node {i}: {nb.variable_names()} vs {exp_names}")
    return vio


# ---------------------------------------------------------------------------
# (d) BBM: per-function local state-space enumeration
# ---------------------------------------------------------------------------
TOKEN = re.compile(r"\s*([A-Za-z0-9_]+|[!&|()])")


def parse_bnet(path):
    out = {}
    for line in open(path):
        line = line.strip()
        if not line or line.startswith("#") or line.lower().startswith("targets"):
            continue
        name, expr = line.split(",", 1)
        out[name.strip()] = expr.strip()
    return out


def compile_expr(expr):
    """independent evaluator: shunting-yard to RPN (precedence ! > & > |), evaluated on a stack"""
    toks = TOKEN.findall(expr)
    assert "".join(toks) == re.sub(r"\s+", "", expr), expr
    prec = {"!": 3, "&": 2, "|": 1}
    rpn, st, names = [], [], set()
    for t in toks:
        if t == "(":
            st.append(t)
        elif t == ")":
            while st[-1] != "(":
                rpn.append(st.pop())
            st.pop()
        elif t == "!":
            st.append(t)
        elif t in "&|":
            while st and st[-1] != "(" and prec[st[-1]] >= prec[t]:
                rpn.append(st.pop())
            st.append(t)
        else:
            rpn.append(("v", t))
            if t not in ("true", "false"):
                names.add(t)
    while st:
        rpn.append(st.pop())

    def fn(d):
        stack = []
        for x in rpn:
            if x == "!":
                stack.append(not stack.pop())
            elif x == "&":
                b = stack.pop(); a = stack.pop(); stack.append(a and b)
            elif x == "|":
                b = stack.pop(); a = stack.pop(); stack.append(a or b)
            else:
                nm = x[1]
                stack.append(True if nm == "true" else False if nm == "false" else bool(d[nm]))
        assert len(stack) == 1
        return stack[0]
    return fn, sorted(names)


def check_model(path, maxin, res):
    from biodivine_aeon import BooleanNetwork
    from biobalm.petri_net_translation import network_to_petrinet
    vio = []
    rules = parse_bnet(path)
    bn = BooleanNetwork.from_file(path).infer_valid_graph()
    pn = network_to_petrinet(bn)
    by_var = {}
    for v, dr, cond, bad, t in transitions_of(pn):
        by_var.setdefault(v, []).append((v, dr, cond, bad, t))
    skipped = 0
    name = path.split("/")[-1]
    for var, expr in rules.items():
        fn, sup = compile_expr(expr)
        if len(sup) > maxin:
            skipped += 1
            continue
        vs = sorted(set(sup) | {var})
        trs = by_var.get(var, [])
        if len(sup) >= 2:
            res["nontrivial"].add((name, var))
        outside = [t for (_, _, cond, _, t) in trs if not set(cond) <= set(vs)]
        if outside:
            vio.append(V("petri-net-transition-reads-non-input", {"model": name, "var": var}, f"{outside[:3]}", site="bbm"))
            continue
        for vals in itertools.product([0, 1], repeat=len(vs)):
            d = dict(zip(vs, vals))
            f = int(fn(d))
            res["evals"] += 1
            for dr in ("up", "down"):
                exp = (d[var] == 0 and f == 1) if dr == "up" else (d[var] == 1 and f == 0)
                if enabled(trs, d, var, dr) != exp:
                    vio.append(V("petri-net-enabledness", {"model": name, "var": var, "valuation": d, "dir": dr},
                                 f"{name} {var} {dr} at {d}: expected {exp}", site="bbm"))
                    break
    return vio, skipped


def run_unit(unit):
    uname, items, tier = unit
    res = new_result()
    if uname == "BBM":
        maxin = 12 if tier == "quick" else 16
        for path in items:
            try:
                with case_timeout(900):
                    vio, skipped = check_model(path, maxin, res)
            except CaseTimeout:
                res["hangs"].append({"case": {"model": path}, "why": "model exceeded 900 s"})
                continue
            count(res, "bbm_functions_skipped_too_many_inputs", skipped)
            count(res, "bbm_models", 1)
            res["traces"] += 1
            res["violations"] += vio[:5]
        res["states"] = res["evals"]
        res["transitions"] = res["evals"]
        if items:
            res["samples"].append({"model": items[0]})
        return res
    for spec in items:
        net = U.resolve(spec)
        res["states"] += net.N + len(net.spaces)
        try:
            with case_timeout(120):
                vio = check_small(net, spec, res)
        except CaseTimeout:
            res["hangs"].append({"case": {"net": list(spec)}, "why": "exceeded 120 s"})
            continue
        res["traces"] += 1
        for i in range(net.n):
            if sum(net.depends(i, j) for j in range(net.n)) >= 2:
                res["nontrivial"].add((net.n, net.tables[i]))
        res["outcomes"].add((len(net.trap_spaces), net.n))
        seen = set()
        for v in vio:
            if (v["oracle"], v["site"]) not in seen:
                seen.add((v["oracle"], v["site"]))
                res["violations"].append(v)
        if len(res["samples"]) < 2:
            res["samples"].append({"net": net.bnet()})
    res["transitions"] = res["evals"]
    return res


def replay(case):
    res = new_result()
    if "model" in case:
        path = [p for p in U.bbm_models() if p.endswith("/" + case["model"])][0]
        vio, _ = check_model(path, 16, res)
        return [v for v in vio if v["case"].get("var") == case.get("var")]
    net = U.resolve(case["net"])
    vio = check_small(net, case["net"], res)
    return [v for v in vio if v["case"]["what"] == case["what"]] or vio
