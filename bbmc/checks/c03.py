"""C03 — every complete strategy yields exactly the minimal trap spaces (DESIGN §3 C03)."""
from __future__ import annotations

import itertools
from .common import *  # noqa
from .. import universe as U
from ..explorer import Explorer, plain_ops
from ..drv import replay as replay_hist

ID = "C03"
LEVEL = "model_checking"

COMPLETE = [("bfs", None, None, None), ("dfs", None, None, None), ("scc", True), ("scc", False),
            ("min", None, None, False), ("min", None, None, True), ("aseeds", None)] + \
           [("block", m, None, o, e) for m in (True, False) for o in (True, False) for e in (True, False)]
PARTIAL = ["bfs", "dfs", "min", "minskip", "block", "block_plain", "aseeds"]
RESUMABLE = [("bfs", None, None, None), ("dfs", None, None, None), ("min", None, None, False),
             ("min", None, None, True), ("aseeds", None)]


def partial_op(name, lim):
    return {"bfs": ("bfs", None, None, lim), "dfs": ("dfs", None, None, lim), "min": ("min", None, lim, False),
            "minskip": ("min", None, lim, True), "block": ("block", True, lim, True), "block_plain": ("block", False, lim, False),
            "aseeds": ("aseeds", lim)}[name]


def universes(tier, seed):
    out = [("U1", [("idx", 1, i) for i in range(4)]), ("U2", [("idx", 2, i) for i in range(256)])]
    out.append(("K", [("k", k) for k in U.kernel()]))
    ks = sorted(U.kernel_small(3))
    out.append(("KxK", [("u", ("k", a), ("k", b)) for a in ks for b in ks if a <= b]))
    out.append(("I3", [("i3", i) for i in range(len(U.I3_nets()))]))
    out.append(("DEP4", [("bnet", t) for t in U.DEP4_bnets()]))
    if tier == "quick":
        out.append(("F3c", [("idx", 3, i) for i in U.F3_indices(True)]))
        out.append((f"MAA3[{seed % 128}/128]", [("idx", 3, i) for i in U.shard(U.catalogue("maa"), seed, 128)]))
    else:
        out.append(("F3c", [("idx", 3, i) for i in U.F3_indices(True)]))
        out.append((f"MAA3[{seed % 16}/16]", [("idx", 3, i) for i in U.shard(U.catalogue("maa"), seed, 16)]))
        out.append(("P4c", [("p4", a, b) for a, b in U.P4_pairs(True)]))
    return out


def plan(tier, seed):
    us = universes(tier, seed)
    units = []
    for name, specs in us:
        hist_depth = 0
        if name in ("K", "U1"):
            hist_depth = 2 if tier != "quick" else -2  # quick: 2 for small diagrams, 1 otherwise (resolved per network below)
        elif name == "U2":
            hist_depth = 1 if tier == "quick" else 2
        elif name in ("F3c", "I3") and tier != "quick":
            hist_depth = 1
        size = (1 if hist_depth == -2 else 4) if hist_depth else 60
        # quick tier: the partial-strategy x size-limit x completion grid runs on a complete seed-selected shard of
        # the two largest universes (complete strategies run on all of them)
        part_mod = {"F3c": 8, "KxK": 4, "I3": 4}.get(name, 1) if tier == "quick" else 1
        full = [s for j, s in enumerate(specs) if j % part_mod == seed % part_mod]
        rest = [s for j, s in enumerate(specs) if j % part_mod != seed % part_mod]
        for ch in U.chunks(full, size):
            hd = hist_depth
            if hd == -2:
                hd = 2 if max(len(U.resolve(x).sd[0]) for x in ch) <= 4 else 1
            units.append((name, ch, hd, True))
        for ch in U.chunks(rest, 120):
            units.append((name, ch, hist_depth, False))
    units.sort(key=lambda u: (not u[3], u[0] != "KxK"))
    return {
        "units": units, "universes": {n: len(s) for n, s in us},
        "bounds": {"complete_strategies": len(COMPLETE), "partial": PARTIAL, "size_limits": "1..|full diagram|", "partial_grid_shard": "quick: F3c 1/8, KxK 1/4, I3 1/4 selected by VERIF_SEED; others all",
                   "completions": ["skip_remaining", "skip_to_minimal on every stub until none left"],
                   "prefix_history_depth": {"K,U1": 2, "U2": 1 if tier == "quick" else 2, "F3c,I3": 0 if tier == "quick" else 1}},
        "rule": "network x (15 complete strategy/option variants | 7 partial strategies x every size limit x 2 skip "
                "completions | every state reachable by plain-alphabet histories up to the depth bound x 5 resumable "
                "strategies); non-trivial = distinct network with >= 2 minimal trap spaces",
        "assumptions": ["reference minimal trap spaces by enumeration of all 3^n subspaces"],
        "unit_timeout": 1200,
    }


def min_oracle(net, sd):
    out = []
    got = sorted(key(sd.node_data(i)["space"]) for i in sd.minimal_trap_spaces())
    exp = sorted(key(m) for m in net.min_traps)
    if got != exp:
        kind = "minimal-trap-duplicated" if len(got) != len(set(got)) else (
            "minimal-trap-missing" if set(exp) - set(got) else "minimal-trap-spurious")
        out.append((kind, f"got {got} expected {exp}"))
    for i in sd.node_ids():
        leaf = sd.dag.out_degree(i) == 0 and bool(sd.node_data(i)["expanded"])
        if sd.node_is_minimal(i) != leaf:
            out.append(("node-is-minimal-inconsistent", f"node {i}"))
    return out


def complete_by_skipping(sd, route):
    if route == "skiprem":
        sd.skip_remaining()
    else:
        for _ in range(100):
            stubs = list(sd.stub_ids())
            if not stubs:
                break
            for i in stubs:
                sd.skip_to_minimal(i)
    return sd


def run_history(net, hist):
    """hist: list of ops; special op ('complete', route). returns violations"""
    sd = new_sd(net)
    ret = None
    for op in hist:
        if op[0] == "complete":
            sd = complete_by_skipping(sd, op[1])
            if list(sd.stub_ids()):
                return [("skip-completion-left-stubs", f"{list(sd.stub_ids())}")]
            ret = True
        else:
            sd, ret = apply(sd, tuple(op))
    if ret is not True:
        return [("not-complete", repr(ret))] if hist and hist[-1][0] != "complete" else []
    return min_oracle(net, sd)


def cases_for(net, hist_depth, partial=True):
    nfull = len(net.sd[0])
    for op in COMPLETE:
        yield [op], True
    for name in (PARTIAL if partial else []):
        for lim in range(1, nfull + 1):
            for route in ("skiprem", "skipeach"):
                yield [partial_op(name, lim), ("complete", route)], True
    if hist_depth:
        ex = Explorer(net, lambda n, s: plain_ops(n, s, limits="few", targets="nodes"))
        hs = ex.run(depth=hist_depth)
        for h in hs:
            if not h:
                continue
            for op in RESUMABLE:
                yield list(h) + [op], True


def run_unit(unit):
    uname, specs, hist_depth, partial = unit
    res = new_result()
    for spec in specs:
        net = U.resolve(spec)
        res["states"] += len(net.spaces)
        if len(net.min_traps) >= 2:
            res["nontrivial"].add(repr(spec))
        for hist, must_complete in cases_for(net, hist_depth, partial):
            case = {"net": list(spec), "history": [list(o) for o in hist]}
            res["evals"] += 1
            res["transitions"] += len(hist)
            try:
                with case_timeout(15):
                    vs = run_history(net, hist)
            except CaseTimeout:
                res["hangs"].append({"case": case, "why": "case exceeded 15 s"})
                continue
            except Exception as e:
                vs = [("exception", f"{type(e).__name__}: {str(e)[:300]}")]
            if vs and vs[0][0] == "not-complete" and must_complete and hist[-1][0] in ("bfs", "dfs", "min", "aseeds", "scc", "block"):
                pass
            res["traces"] += 1
            res["outcomes"].add((hist[-1][0], len(net.min_traps)))
            for o, d in vs:
                res["violations"].append(V(o, case, f"{net!r}: {d}", site=hist[-1][0] if hist[-1][0] != "complete" else hist[0][0] + "+" + hist[-1][1]))
        if len(res["samples"]) < 2:
            res["samples"].append({"net": net.bnet(), "example_history": [list(o) for o in hist]})
    return res


def replay(case):
    net = U.resolve(case["net"])
    hist = [tuple(tuple(x) if isinstance(x, list) else x for x in o) for o in case["history"]]
    try:
        with case_timeout(60):
            vs = run_history(net, hist)
    except CaseTimeout:
        return [V("terminates", case, "hang")]
    except Exception as e:
        vs = [("exception", f"{type(e).__name__}: {str(e)[:300]}")]
    return [V(o, case, d) for o, d in vs]
