"""C19 — results are reproducible (DESIGN §3 C19)."""
from __future__ import annotations

import json
import math
import os
import subprocess
from .common import *  # noqa
from .. import universe as U
from ..envdump import full_dump, batch, STRATS
from ..drv import module_state

ID = "C19"
LEVEL = "model_checking"
ROOT = os.path.dirname(os.path.dirname(os.path.dirname(os.path.abspath(__file__))))
XSTRATS = "build,bfs,scc,minskip,succskip,aseedsskip"


def plan(tier, seed):
    nseeds = 256 if tier == "quick" else 768
    units = [("proc", s, "small") for s in range(nseeds)] + [("proc", s, "big") for s in range(0, nseeds, 8)]
    # the same dumps from processes with another history: the batch in reverse order, and every network alone in a fresh process
    units += [("proc", 0, "small:rev"), ("proc", 0, "big:rev")]
    units += [("proc", 0, "one:" + json.dumps(list(map(lambda x: list(x) if isinstance(x, tuple) else x, spec)))) for spec in batch("small") + batch("big")]
    K = U.kernel()
    inproc = [("k", k) for k in K] + [("idx", 2, i) for i in (U.U2c_indices() if tier == "quick" else range(256))]
    inproc += [("i3", i) for i in U.shard(list(range(1444)), seed, 16 if tier == "quick" else 2)]
    for ch in U.chunks(inproc, 6):
        units.append(("inproc", ch, None))
    from ..envdump import OVERLAP_MAA
    for spec in OVERLAP_MAA:   # overlapping skip nodes x motif-avoidant attractor: 3-6 candidates per node, the shape behind D13
        units.append(("inproc", [spec], None))
    inproc = inproc + OVERLAP_MAA
    return {
        "units": units,
        "universes": {"hash seeds (one interpreter process each)": nseeds, "networks per process (batch 'small')": len(batch("small")),
                      "networks per process (batch 'big', every 8th seed)": len(batch("big")), "in-process networks": len(inproc)},
        "bounds": {"other process histories": "the batch in reverse order; every network alone in a fresh process",
                   "cross-process": f"PYTHONHASHSEED = 0..{nseeds - 1}; strategies {XSTRATS} + both control strategies; the iteration order of "
                   "set(variable names) is recorded per process and every permutation of every <=4-element name set of the batch must have "
                   "been observed (checked; otherwise the run is a harness error, not a pass)",
                   "in-process": "second run in the same process; run after each entry of the preceding-call menu (build another network, "
                                 "forced symbolic fallback, control on another network, raise-and-catch a candidate-limit error, "
                                 "raise-and-catch a motif-limit error, pickle round trip of another diagram)"},
        "rule": "byte-identical dumps (ids, spaces, flags, depths, edges, motif lists, seeds in order, sets, summary(), interventions as "
                "returned, module-level state) across all runs of the same (network, strategy); non-trivial = distinct (network, strategy)",
        "assumptions": ["the per-instance hash-map randomisation inside the AEON extension module is seeded from OS entropy and cannot be "
                        "enumerated: it is covered by repetition (one sample per process and per repeated in-process run), not exhaustively"],
        "unit_timeout": 900,
    }


def menu():
    from biobalm import SuccessionDiagram
    from biobalm.control import succession_control

    def other_build():
        sd = SuccessionDiagram.from_rules("X, Y | !Z\nY, X\nZ, !Z & X")
        sd.build()

    def fallback():
        sd = SuccessionDiagram.from_rules("X, !Y\nY, X\nZ, Z")
        sd.config["attractor_candidates_limit"] = 0
        sd.config["retained_set_optimization_threshold"] = 0
        sd.config["debug"] = False
        for i in list(sd.node_ids()):
            sd.node_attractor_seeds(i, compute=True, symbolic_fallback=True)

    def control():
        sd = SuccessionDiagram.from_rules("S, S\nP, S | Q\nQ, P")
        succession_control(sd, {"P": 1}, strategy="all")

    def cand_limit_error():
        sd = SuccessionDiagram.from_rules("X, X\nY, Y")
        sd.config["attractor_candidates_limit"] = 1
        try:
            sd.node_attractor_candidates(0, compute=True, greedy_asp_minification=False)
        except RuntimeError:
            pass

    def motif_limit_error():
        sd = SuccessionDiagram.from_rules("X, X\nY, Y")
        sd.config["max_motifs_per_node"] = 1
        try:
            sd.expand_bfs()
        except RuntimeError:
            pass

    def pickle_other():
        import pickle
        sd = SuccessionDiagram.from_rules("X, Y\nY, X")
        sd.build()
        pickle.loads(pickle.dumps(sd)).build()

    def debug_fallback():
        import io, contextlib
        sd = SuccessionDiagram.from_rules("X, !Y\nY, X")
        sd.config["debug"] = True
        sd.config["attractor_candidates_limit"] = 0
        sd.config["retained_set_optimization_threshold"] = 0
        with contextlib.redirect_stdout(io.StringIO()):
            try:
                sd.node_attractor_seeds(0, compute=True, symbolic_fallback=True)
            except Exception:
                pass

    return [("again", lambda: None), ("other_build", other_build), ("fallback", fallback), ("control", control),
            ("cand_limit_error", cand_limit_error), ("motif_limit_error", motif_limit_error), ("pickle_other", pickle_other),
            ("debug_fallback", debug_fallback)]


def safe_dump(net, st):
    try:
        return full_dump(net, st)
    except Exception as e:
        return f"EXC {type(e).__name__}: {e}"


def run_proc(seed, bname):
    env = dict(os.environ, PYTHONHASHSEED=str(seed))
    env.pop("VERIF_OUT", None)
    p = subprocess.run(["/venv/bin/python", "-m", "bbmc.envdump", bname, XSTRATS], cwd=ROOT, env=env, capture_output=True, text=True, timeout=800)
    line = [l for l in p.stdout.splitlines() if l.startswith("ENVDUMP ")]
    if p.returncode != 0 or not line:
        raise RuntimeError(f"envdump failed for seed {seed}: {p.stderr[-500:]}")
    return json.loads(line[0][8:])


def run_unit(unit):
    kind = unit[0]
    res = new_result()
    if kind == "proc":
        _, seed, bname = unit
        d = run_proc(seed, bname)
        if not bname.startswith(("small", "big")) or ":" in bname:
            d["orders"] = {}
        for case, sha in d["dumps"].items():
            res["outcomes"].add(("dump", case, sha))
            res["nontrivial"].add(case)
        for s, order in d["orders"].items():
            res["outcomes"].add(("order", s, tuple(order)))
        res["evals"] = len(d["dumps"])
        res["transitions"] = len(d["dumps"])
        res["traces"] = len(d["dumps"])
        res["states"] = 1
        res["samples"].append({"hash_seed": seed, "batch": bname})
        return res
    ms0 = module_state()
    for spec in unit[1]:
        net = U.resolve(spec)
        for st in STRATS:
            res["evals"] += 1
            try:
                with case_timeout(300):
                    base = safe_dump(net, st)
                    for name, fn in menu():
                        try:
                            fn()
                        except Exception as e:
                            # every menu entry works in a fresh process; failing here means state leaked from earlier calls
                            res["violations"].append(V("unrelated-call-fails-after-earlier-calls", {"kind": "inproc", "net": list(spec), "strategy": st, "after": name},
                                                       f"menu entry '{name}' raised {type(e).__name__}: {str(e)[:120]} after earlier calls in the same process", site=name))
                            break
                        again = safe_dump(net, st)
                        res["transitions"] += 1
                        if again != base:
                            res["violations"].append(V("dump-differs-in-same-process", {"kind": "inproc", "net": list(spec), "strategy": st, "after": name},
                                                       f"{net!r} {st}: dump after '{name}' differs from the first run", site=name))
                            break
                        if module_state() != ms0:
                            res["violations"].append(V("module-state-leaked", {"kind": "inproc", "net": list(spec), "strategy": st, "after": name},
                                                       f"after '{name}': {module_state()} vs {ms0}", site=name))
                            break
            except CaseTimeout:
                res["hangs"].append({"case": {"net": list(spec), "strategy": st}, "why": "exceeded 300 s"})
            res["nontrivial"].add((repr(spec), st))
    res["traces"] = res["evals"]
    res["states"] = res["evals"]
    if unit[1]:
        res["samples"].append({"net": repr(unit[1][0]), "kind": "inproc"})
    best = {}
    for v in res["violations"]:
        k = (v["oracle"], v["site"])
        if k not in best:
            best[k] = v
    res["violations"] = list(best.values())
    return res


def finalize(agg, plan):
    """cross-process comparison: every (network, strategy) must have one digest over all hash seeds; all orders observed"""
    vio = []
    shas = {}
    orders = {}
    for o in agg["outcomes"]:
        if o[0] == "dump":
            shas.setdefault(o[1], set()).add(o[2])
        elif o[0] == "order":
            orders.setdefault(o[1], set()).add(o[2])
    for case, ss in sorted(shas.items()):
        if len(ss) > 1:
            spec, st = json.loads(case)
            vio.append(V("dump-differs-across-processes", {"kind": "proc", "net": spec, "strategy": st},
                         f"{case}: {len(ss)} different dumps across interpreter processes (hash seeds 0..N, batch order reversed, "
                         f"network alone in a fresh process)", site="process"))
    incomplete = []
    for s, os_ in orders.items():
        n = len(s.split(","))
        if len(os_) < math.factorial(n):
            incomplete.append((s, len(os_), math.factorial(n)))
    agg["counters"]["name_sets_with_all_orders_observed"] = len(orders) - len(incomplete)
    agg["counters"]["name_sets_incomplete"] = len(incomplete)
    agg["outcomes"] = {("distinct dumps", len(shas)), ("name sets", len(orders))} | {("incomplete", str(x)) for x in incomplete}
    if incomplete and not any(c.get("cap") == "wall_budget" for c in agg["caps"]):
        agg["errors"].append({"unit": "finalize", "error": f"not every iteration order was observed: {incomplete}; raise the number of hash seeds"})
    return vio


def replay(case):
    if case["kind"] == "inproc":
        net = U.resolve(case["net"])
        base = full_dump(net, case["strategy"])
        for name, fn in menu():
            try:
                fn()
            except Exception as e:
                return [V("unrelated-call-fails-after-earlier-calls", case, f"{name}: {e}", site=name)]
            if full_dump(net, case["strategy"]) != base:
                return [V("dump-differs-in-same-process", case, name, site=name)]
            if name == case["after"]:
                break
        # a difference whose source is randomised inside an extension module (D13: per-instance hash-map order in AEON) shows up
        # only in some repetitions: repeat the plain second run a few times, then compare fresh processes, before giving up
        for _ in range(6):
            if full_dump(net, case["strategy"]) != base:
                return [V("dump-differs-in-same-process", case, "again (repeated)", site=case["after"])]
        case = dict(case, kind="proc")
    # cross-process: run the single (network, strategy) under a range of hash seeds
    seen = set()
    for seed in range(16 if case.get("after") else 64):
        env = dict(os.environ, PYTHONHASHSEED=str(seed))
        code = ("import sys,json,hashlib;from bbmc import universe as U;from bbmc.envdump import full_dump;"
                "print('SHA',hashlib.sha1(full_dump(U.resolve(json.loads(sys.argv[1])),sys.argv[2]).encode()).hexdigest())")
        p = subprocess.run(["/venv/bin/python", "-c", code, json.dumps(case["net"]), case["strategy"]], cwd=ROOT, env=env, capture_output=True, text=True)
        for l in p.stdout.splitlines():
            if l.startswith("SHA "):
                seen.add(l[4:])
        if len(seen) > 1:
            return [V("dump-differs-in-same-process" if case.get("after") else "dump-differs-across-processes", case, f"{len(seen)} dumps within seeds 0..{seed}", site=case.get("after") or "process")]
    # alone in a fresh process vs inside the batches (forward and reversed)
    for bname in (() if case.get("after") else ("small", "small:rev", "big", "big:rev")):
        try:
            d = run_proc(0, bname)
        except Exception:
            continue
        sha = d["dumps"].get(json.dumps([case["net"], case["strategy"]]))
        if sha is not None:
            seen.add(sha)
    if len(seen) > 1:
        return [V("dump-differs-across-processes", case, "differs between an isolated process and a batch process", site="process")]
    return []
