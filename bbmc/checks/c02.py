"""C02 — a fully expanded diagram is exactly the hierarchy of percolated trap spaces (DESIGN §3 C02)."""
from __future__ import annotations

from .common import *  # noqa
from .. import universe as U
from ..inv import structure_check
from . import c01

ID = "C02"
LEVEL = "model_checking"
STRATS = ["bfs", "dfs", "bfs_pn", "succ_desc"]


def plan(tier, seed):
    us = c01.universes(tier, seed)
    units = []
    for name, specs in us:
        for ch in U.chunks(specs, 100):
            units.append((name, ch))
    return {
        "units": units, "universes": {n: len(s) for n, s in us},
        "bounds": {"strategies": STRATS, "max_variables": 6},
        "rule": "every network of each universe x {expand_bfs, expand_dfs, node-by-node expansion with the percolated Petri "
                "net pre-computed, node-by-node expansion in descending id order}; non-trivial = distinct network whose "
                "reference diagram has >= 3 nodes",
        "assumptions": ["reference succession diagram computed from the definition over all 3^n subspaces"],
        "unit_timeout": 900,
    }


def expand(sd, strat):
    if strat == "bfs":
        return sd.expand_bfs()
    if strat == "dfs":
        return sd.expand_dfs()
    if strat == "bfs_pn":
        while True:
            stubs = list(sd.stub_ids())
            if not stubs:
                return True
            for i in stubs:
                sd.node_percolated_petri_net(i, compute=True)
                sd.node_successors(i, compute=True)
    if strat == "succ_desc":
        while True:
            stubs = list(sd.stub_ids())
            if not stubs:
                return True
            for i in reversed(stubs):
                sd.node_successors(i, compute=True)
    raise ValueError(strat)


def check_case(net, strat):
    out = []
    sd = new_sd(net)
    ret = expand(sd, strat)
    if ret is not True:
        return [("strategy-did-not-complete", f"{strat} returned {ret}")], None
    nodes, edges, rootk = net.sd
    if key(sd.node_data(0)["space"]) != rootk:
        out.append(("root-not-percolated-whole-space", f"{sd.node_data(0)['space']} vs {dict(rootk)}"))
    out += structure_check(net, sd, faithful=True)
    got = [key(sd.node_data(i)["space"]) for i in sd.node_ids()]
    if sorted(got) != sorted(nodes):
        out.append(("node-set-differs", f"got {sorted(got)} expected {sorted(nodes)}"))
    for i in sd.node_ids():
        sp = sd.node_data(i)["space"]
        if not sd.node_data(i)["expanded"]:
            out.append(("unexpanded-after-full-expansion", f"node {i}"))
        if not net.is_trap(sp):
            out.append(("node-not-trap-space", f"node {i} {sp}"))
        if net.percolate(sp) != sp:
            out.append(("node-not-percolated", f"node {i} {sp}"))
    leaves = sorted(key(sd.node_data(i)["space"]) for i in sd.minimal_trap_spaces())
    if leaves != sorted(key(m) for m in net.min_traps):
        out.append(("minimal-trap-spaces-differ", f"got {leaves} expected {sorted(key(m) for m in net.min_traps)}"))
    for i in sd.node_ids():
        if sd.node_is_minimal(i) != (sd.dag.out_degree(i) == 0 and sd.node_data(i)["expanded"]):
            out.append(("node-is-minimal-inconsistent", f"node {i}"))
    return out, (len(nodes), len(edges), len(net.min_traps))


def run_unit(unit):
    uname, specs = unit
    res = new_result()
    for spec in specs:
        net = U.resolve(spec)
        res["states"] += len(net.spaces)
        for strat in STRATS:
            case = {"net": list(spec), "strategy": strat}
            res["evals"] += 1
            try:
                with case_timeout(10):
                    vs, outcome = check_case(net, strat)
            except CaseTimeout:
                res["hangs"].append({"case": case, "why": "case exceeded 10 s"})
                continue
            except Exception as e:
                vs, outcome = [("exception", f"{type(e).__name__}: {str(e)[:300]}")], None
            res["traces"] += 1
            if outcome:
                res["outcomes"].add(outcome)
                res["transitions"] += outcome[0]
                if outcome[0] >= 3:
                    res["nontrivial"].add(repr(spec))
            for o, d in vs:
                res["violations"].append(V(o, case, f"{net!r}: {d}", site=strat))
        if len(res["samples"]) < 2:
            res["samples"].append({"net": net.bnet(), "strategies": STRATS})
    return res


def replay(case):
    net = U.resolve(case["net"])
    try:
        with case_timeout(60):
            vs, _ = check_case(net, case["strategy"])
    except CaseTimeout:
        return [V("terminates", case, "hang")]
    except Exception as e:
        vs = [("exception", f"{type(e).__name__}: {str(e)[:300]}")]
    return [V(o, case, d, site=case["strategy"]) for o, d in vs]
