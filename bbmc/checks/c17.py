"""C17 — results do not depend on how the network is written down (DESIGN §3 C17)."""
from __future__ import annotations

import itertools
import re
from .common import *  # noqa
from .. import universe as U
from ..refmodel import Net
from ..inv import fmt_state

ID = "C17"
LEVEL = "model_checking"

NAME_SCHEMES = {
    "sorted": lambda names: list(names),
    "reversed": lambda names: [f"z{len(names) - i}_{nm}" for i, nm in enumerate(names)],  # sort order reversed
    "mixed": lambda names: [("Xx_" if i % 2 else "_g") + nm.lower() + ("_" if i % 2 else "9") for i, nm in enumerate(names)],
    # names that contain the Petri-net place prefixes themselves
    "markers": lambda names: [("q" if i % 2 else "") + f"b{i % 2}_" + nm.lower() + f"_b{(i + 1) % 2}_x" for i, nm in enumerate(names)],
}
STYLES = ["dnf", "cnf", "bdd", "redundant"]
FORMATS = ["bnet", "aeon", "sbml"]
# "api:<perm>": the network is declared through AEON's API with its variables in the given (unsorted) order - the text
# parsers always sort the variables by name, so this is the only way to exercise "reordering their declarations"
NASTY = ["a[", "a]", "a_", "_a_", "a{b}", "a.b", "A", "a", "a\u03b2", "\u03ba"]  # incl. non-ASCII letters


def transform(net, flips, scheme):
    """(transformed Net with new names, back-map newname -> (oldname, flip))"""
    fm = 0
    for i in flips:
        fm |= 1 << i
    tabs = []
    for i in range(net.n):
        t = 0
        for s2 in range(net.N):
            v = net.f(i, s2 ^ fm) ^ (1 if i in flips else 0)
            if v:
                t |= 1 << s2
        tabs.append(t)
    newnames = NAME_SCHEMES[scheme](net.names)
    back = {nn: (on, 1 if i in flips else 0) for i, (nn, on) in enumerate(zip(newnames, net.names))}
    return Net(newnames, tabs), back


def expr_of(net, i, style):
    t = net.tables[i]
    if t == net.FULL:
        return "true"
    if t == 0:
        return "false"
    sup = [j for j in range(net.n) if net.depends(i, j)]
    rows = []
    for vals in itertools.product([0, 1], repeat=len(sup)):
        s = 0
        for j, v in zip(sup, vals):
            if v:
                s |= 1 << j
        rows.append((vals, net.f(i, s)))
    if style in ("dnf", "redundant", "bdd"):
        terms = ["(" + " & ".join((net.names[j] if v else "!" + net.names[j]) for j, v in zip(sup, vals)) + ")" for vals, f in rows if f]
        e = " | ".join(terms)
        if style == "redundant":
            x = net.names[sup[0]]
            e = f"(({e}) & ({x} | !{x})) | (({e}) & ({e}))"
        if style == "bdd":
            from biodivine_aeon import BddVariableSet, BooleanExpression
            ctx = BddVariableSet(sorted(net.names[j] for j in sup))
            e = str(ctx.eval_expression(BooleanExpression(e)).to_expression())
        return e
    clauses = ["(" + " | ".join(("!" + net.names[j] if v else net.names[j]) for j, v in zip(sup, vals)) + ")" for vals, f in rows if not f]
    return " & ".join(clauses)


def text_of(net, style, fmt):
    lines = [f"{nm}, {expr_of(net, i, style)}" for i, nm in enumerate(net.names)]
    bnet = "\n".join(lines)
    if fmt == "bnet":
        return bnet
    if fmt in ("aeon", "aeonfree"):
        # "aeonfree": identity variables are written the way .aeon files write inputs: no update function, no self-regulation
        free = [i for i in range(net.n) if fmt == "aeonfree" and net.tables[i] == net.VARMASK[i]
                and any(net.depends(j, i) for j in range(net.n) if j != i)]
        out = []
        for i, nm in enumerate(net.names):
            if i in free:
                continue
            for j in range(net.n):
                if net.depends(i, j):
                    out.append(f"{net.names[j]} -? {nm}")
        for i, nm in enumerate(net.names):
            if i not in free:
                out.append(f"${nm}: {expr_of(net, i, style)}")
        return "\n".join(out)
    from biodivine_aeon import BooleanNetwork
    return BooleanNetwork.from_bnet(bnet).to_sbml()


def map_back_space(sp, back):
    return {back[k][0]: v ^ back[k][1] for k, v in sp.items()}


def judge(net, sd_bfs, sd_build, back):
    """library results on the transformed presentation, mapped back, against the reference model of the original"""
    out = []
    nodes, edges, rootk = net.sd
    got_nodes = {}
    for i in sd_bfs.node_ids():
        got_nodes[i] = key(map_back_space(sd_bfs.node_data(i)["space"], back))
    if sorted(got_nodes.values()) != sorted(nodes):
        out.append(("diagram-nodes-differ", f"got {sorted(got_nodes.values())} expected {sorted(nodes)}"))
        return out
    ge = {}
    for (a, b, d) in sd_bfs.dag.edges(data=True):
        ge[(got_nodes[a], got_nodes[b])] = sorted(key(map_back_space(m, back)) for m in d["all_motifs"])
    ee = {k: sorted(key(m) for m in v) for k, v in edges.items()}
    if ge != ee:
        out.append(("diagram-edges-or-motifs-differ", f"got {sorted(ge.items())[:4]} expected {sorted(ee.items())[:4]}"))
    mins = sorted(got_nodes[i] for i in sd_bfs.minimal_trap_spaces())
    if mins != sorted(key(m) for m in net.min_traps):
        out.append(("minimal-trap-spaces-differ", f"{mins}"))
    hits = []
    for i, seeds in sd_build.expanded_attractor_seeds().items():
        for s in seeds:
            o = map_back_space(s, back)
            a = net.attractor_of(net.state_of(o)) if len(o) == net.n else None
            if a is None:
                out.append(("seed-not-in-attractor", f"{s}"))
            else:
                hits.append(a)
    if sorted(hits) != sorted(net.attractors):
        out.append(("attractors-differ", f"{len(hits)} seeds for {len(net.attractors)} attractors"))
    return out


def permute_net(net, perm):
    """the same network with its variables declared in the order perm (perm[k] = old index of the k-th declared variable)"""
    names = [net.names[i] for i in perm]
    pos = {old: k for k, old in enumerate(perm)}
    tabs = []
    for k, old in enumerate(perm):
        t = 0
        for s2 in range(net.N):
            s = 0
            for j in range(net.n):
                if (s2 >> pos[j]) & 1:
                    s |= 1 << j
            if net.f(old, s):
                t |= 1 << s2
        tabs.append(t)
    return Net(names, tabs)


def judge_attractors_only(net, sd, back):
    out = []
    mins = sorted(key(map_back_space(sd.node_data(i)["space"], back)) for i in sd.minimal_trap_spaces())
    if mins != sorted(key(m) for m in net.min_traps):
        out.append(("minimal-trap-spaces-differ", f"expand_scc: {mins}"))
    hits = []
    for i, seeds in sd.expanded_attractor_seeds().items():
        for s in seeds:
            o = map_back_space(s, back)
            a = net.attractor_of(net.state_of(o)) if len(o) == net.n else None
            hits.append(a)
    if None in hits or sorted(hits) != sorted(net.attractors):
        out.append(("attractors-differ", f"expand_scc: {len(hits)} seeds for {len(net.attractors)} attractors"))
    return out


def run_presentation(net, flips, scheme, style, fmt):
    from biobalm import SuccessionDiagram
    tnet, back = transform(net, flips, scheme)
    if fmt.startswith("api:"):
        from ..drv import bn_api
        perm = [int(c) for c in fmt[4:]]
        pn = permute_net(tnet, perm)
        sd1 = SuccessionDiagram(bn_api(pn))
        sd1.expand_bfs()
        sd2 = SuccessionDiagram(bn_api(pn))
        sd2.build()
        out = judge(net, sd1, sd2, back)
        if not flips and scheme == "sorted":
            base = new_sd(net)
            base.expand_bfs()
            if not (base.is_isomorphic(sd1) and sd1.is_isomorphic(base) and base.is_subgraph(sd1) and sd1.is_subgraph(base)):
                out.append(("is-isomorphic-false-for-equivalent-presentation", f"declaration order {perm}"))
        return out
    text = text_of(tnet, style, fmt)
    lf = "aeon" if fmt == "aeonfree" else fmt
    sd1 = SuccessionDiagram.from_rules(text, format=lf)
    sd1.expand_bfs()
    sd2 = SuccessionDiagram.from_rules(text, format=lf)
    sd2.build()
    if fmt == "aeonfree":
        # also the source-SCC strategy: it has its own detection of input variables
        sd3 = SuccessionDiagram.from_rules(text, format=lf)
        sd3.expand_scc()
        out3 = judge_attractors_only(net, sd3, back)
        if out3:
            return out3
    out = judge(net, sd1, sd2, back)
    if not flips and scheme == "sorted":
        base = new_sd(net)
        base.expand_bfs()
        if not (base.is_isomorphic(sd1) and sd1.is_isomorphic(base)):
            out.append(("is-isomorphic-false-for-equivalent-presentation", f"{style}/{fmt}"))
    return out


def build_nasty(net, names):
    """the network of `net` with the given (possibly unsanitary, possibly colliding-after-sanitizing) names, built through the API"""
    from biodivine_aeon import BooleanNetwork, UpdateFunction
    bn = BooleanNetwork(list(names))
    vs = bn.variables()
    for i in range(net.n):
        for j in range(net.n):
            if net.depends(i, j):
                bn.add_regulation({"source": vs[j], "target": vs[i], "essential": True, "sign": None})
    for i in range(net.n):
        t = net.tables[i]
        if t == net.FULL or t == 0:
            bn.set_update_function(vs[i], UpdateFunction.mk_const(bn, t != 0))
            continue
        sup = [j for j in range(net.n) if net.depends(i, j)]
        terms = []
        for vals in itertools.product([0, 1], repeat=len(sup)):
            s = 0
            for j, v in zip(sup, vals):
                if v:
                    s |= 1 << j
            if net.f(i, s):
                lits = [UpdateFunction.mk_var(bn, vs[j]) if v else UpdateFunction.mk_not(UpdateFunction.mk_var(bn, vs[j])) for j, v in zip(sup, vals)]
                terms.append(UpdateFunction.mk_conjunction(bn, lits) if len(lits) > 1 else lits[0])
        bn.set_update_function(vs[i], UpdateFunction.mk_disjunction(bn, terms) if len(terms) > 1 else terms[0])
    return bn


def run_sanitize(net, names):
    from biobalm import SuccessionDiagram
    from biobalm.petri_net_translation import sanitize_network_names
    from ..refmodel import net_from_bn
    out = []
    bn = build_nasty(net, names)
    s = sanitize_network_names(bn)
    new = s.variable_names()
    if len(set(new)) != len(new):
        out.append(("sanitized-names-collide", f"{names} -> {new}"))
        return out
    if any(not re.match("^[a-zA-Z0-9_]+$", x) for x in new):
        out.append(("sanitized-name-not-solver-safe", f"{names} -> {new}"))
        return out
    if bn.variable_names() != list(names):
        out.append(("sanitize-modified-its-argument", f"{bn.variable_names()}"))
    rn = net_from_bn(s)
    # variable order is kept by renaming, so truth tables must be identical index by index
    order = [new.index(x) for x in rn.names]
    if [rn.tables[rn.names.index(new[i])] for i in range(net.n)] != list(_reindex(net, rn, new)):
        out.append(("sanitize-changed-dynamics", f"{names} -> {new}"))
        return out
    back = {new[i]: (net.names[i], 0) for i in range(net.n)}
    sd1 = SuccessionDiagram(s)
    sd1.expand_bfs()
    sd2 = SuccessionDiagram(s)
    sd2.build()
    out += judge(net, sd1, sd2, back)
    return out


def _reindex(net, rn, new):
    """tables of net expressed in rn's variable order"""
    pos = [rn.names.index(new[i]) for i in range(net.n)]  # original index i -> position in rn
    for i in range(net.n):
        t = 0
        for s2 in range(rn.N):
            s = 0
            for j in range(net.n):
                if (s2 >> pos[j]) & 1:
                    s |= 1 << j
            if net.f(i, s):
                t |= 1 << s2
        yield t


def plan(tier, seed):
    units = []
    unis = {}
    u2 = [("idx", 2, i) for i in (U.U2c_indices() if tier == "quick" else range(256))]
    unis["U2c full group" if tier == "quick" else "U2 full group"] = len(u2)
    for ch in U.chunks(u2, 4):
        units.append(("group", ch))
    gens = [("k", k) for k, n in U.kernel().items() if n.n <= 5] + [("idx", 3, i) for i in U.shard(U.catalogue("multi"), seed, 8 if tier == "quick" else 1)]
    gens += [("idx", 3, i) for i in U.shard(U.F3_indices(True), seed, 32 if tier == "quick" else 2)]
    gens += [("idx", 3, i) for i in U.shard(U.catalogue("maa"), seed, 1024 if tier == "quick" else 64)]
    unis["generators (K, MULTI3, F3c, MAA3 shards)"] = len(gens)
    for ch in U.chunks(gens, 10):
        units.append(("gens", ch))
    base2 = [("k", "bistable"), ("k", "toggle_neg"), ("k", "xor_pair")]
    base3 = [("k", "doc_example"), ("k", "switch_feeds_osc")]
    tuples = [(b, t) for b in base2 for t in itertools.permutations(NASTY, 2)] + [(b, t) for b in base3 for t in itertools.permutations(NASTY, 3)]
    unis["sanitization: ordered name tuples from the nasty pool x base networks"] = len(tuples)
    for ch in U.chunks(tuples, 60):
        units.append(("sanitize", ch))
    return {
        "units": units, "universes": unis,
        "bounds": {"full group (n=2)": "4 name schemes (incl. one that reverses the sort order and one whose names contain the Petri-net "
                   "place prefixes b0_/b1_) x 4 negation patterns x (4 formula styles (minterm DNF, maxterm CNF, BDD to_expression, "
                   "redundant/absorbed clauses) x 3 formats (bnet, aeon, sbml) + every declaration order through the API)",
                   "generators (n>=3)": "each name scheme, each declaration order (all 6 for n=3), each single-variable negation, each style, each format, one at a time",
                   "sanitization": "all ordered tuples of 2 / 3 names from the pool " + str(NASTY)},
        "rule": "library results on the transformed presentation (full diagram, minimal trap spaces, attractor seeds after build) are "
                "mapped back through the transformation and compared with the reference model of the original network; non-trivial = "
                "distinct (network, transformation) whose diagram has >= 3 nodes",
        "assumptions": ["AEON's parsers/writers are trusted to implement their formats (sbml text is produced by AEON's writer)"],
        "unit_timeout": 1800,
    }


def presentations(net, full):
    n = net.n
    perms = ["".join(map(str, p)) for p in itertools.permutations(range(n))] if n <= 3 else \
            ["".join(map(str, reversed(range(n)))), "".join(map(str, list(range(1, n)) + [0]))]
    if full:
        for scheme in NAME_SCHEMES:
            for k in range(n + 1):
                for flips in itertools.combinations(range(n), k):
                    for style in STYLES:
                        for fmt in FORMATS + (["aeonfree"] if style == "dnf" and not flips else []):
                            yield (flips, scheme, style, fmt)
                    for pm in perms:
                        yield (flips, scheme, "dnf", "api:" + pm)
    else:
        yield ((), "sorted", "dnf", "bnet")
        for pm in perms:
            yield ((), "sorted", "dnf", "api:" + pm)
        for scheme in ("reversed", "mixed", "markers"):
            yield ((), scheme, "dnf", "bnet")
        for i in range(n):
            yield ((i,), "sorted", "dnf", "bnet")
        yield (tuple(range(n)), "reversed", "cnf", "aeon")
        for style in STYLES[1:]:
            yield ((), "sorted", style, "bnet")
        for fmt in FORMATS[1:] + ["aeonfree"]:
            yield ((), "sorted", "dnf", fmt)


def run_unit(unit):
    kind, items = unit
    res = new_result()
    nhang = 0
    for it in items:
        if nhang >= 3:
            res["caps"].append({"unit": kind, "cap": "3 items exceeded 20 s; rest of the unit skipped"})
            break
        try:
            with case_timeout(20 if kind == "sanitize" else 600):
                if kind == "sanitize":
                    spec, names = it
                    net = U.resolve(spec)
                    res["evals"] += 1
                    case = {"kind": "sanitize", "net": list(spec), "names": list(names)}
                    try:
                        vs = run_sanitize(net, names)
                    except CaseTimeout:
                        raise
                    except Exception as e:
                        vs = [("exception", f"{type(e).__name__}: {str(e)[:200]}")]
                    if len(net.sd[0]) >= 3:
                        res["nontrivial"].add((repr(spec), names))
                    for o, d in vs:
                        res["violations"].append(V(o, case, f"{net!r} names {names}: {d}", site="sanitize"))
                else:
                    spec = it
                    net = U.resolve(spec)
                    res["states"] += net.N
                    for (flips, scheme, style, fmt) in presentations(net, kind == "group"):
                        res["evals"] += 1
                        case = {"kind": "presentation", "net": list(spec), "flips": list(flips), "scheme": scheme, "style": style, "format": fmt}
                        try:
                            vs = run_presentation(net, flips, scheme, style, fmt)
                        except CaseTimeout:
                            raise
                        except Exception as e:
                            vs = [("exception", f"{type(e).__name__}: {str(e)[:200]}")]
                        if len(net.sd[0]) >= 3:
                            res["nontrivial"].add((repr(spec), flips, scheme, style, fmt))
                        res["outcomes"].add((scheme, style, fmt, len(flips)))
                        for o, d in vs:
                            res["violations"].append(V(o, case, f"{net!r} flips={flips} names={scheme} style={style} format={fmt}: {d}",
                                                       site=f"{scheme}/{style}/{fmt}/{'flip' if flips else 'noflip'}"))
        except CaseTimeout:
            nhang += 1
            res["hangs"].append({"case": {"item": repr(it)}, "why": "exceeded its soft time limit"})
    best = {}
    for v in res["violations"]:
        k = (v["oracle"], v["site"])
        if k not in best or len(str(v["case"])) < len(str(best[k]["case"])):
            best[k] = v
    res["violations"] = list(best.values())
    res["transitions"] = res["evals"] * 2
    res["traces"] = res["evals"]
    if items and len(res["samples"]) < 1:
        res["samples"].append({"kind": kind, "example": repr(items[0])})
    return res


def replay(case):
    net = U.resolve(case["net"])
    try:
        with case_timeout(120):
            if case["kind"] == "sanitize":
                vs = run_sanitize(net, tuple(case["names"]))
            else:
                vs = run_presentation(net, tuple(case["flips"]), case["scheme"], case["style"], case["format"])
    except CaseTimeout:
        return [V("terminates", case, "hang")]
    except Exception as e:
        vs = [("exception", f"{type(e).__name__}: {str(e)[:200]}")]
    return [V(o, case, d) for o, d in vs]
