"""C07 — control output is complete, minimal and honours the user's constraints (DESIGN §3 C07)."""
from __future__ import annotations

import itertools
from .common import *  # noqa
from .. import universe as U
from ..ctlref import ref_successions, ref_drivers, canon_succ, canon_ctrl
from ..explorer import targets_of

ID = "C07"
LEVEL = "model_checking"


def universes(tier, seed):
    out = [("U1", [("idx", 1, i) for i in range(4)], "all"), ("U2", [("idx", 2, i) for i in range(256)], "all"),
           ("K", [("k", k) for k in U.kernel()], "nodes")]
    if tier == "quick":
        out.append((f"I3[{seed % 64}/64]", [("i3", i) for i in U.shard(list(range(1444)), seed, 64)], "all"))
        out.append((f"F3c[{seed % 128}/128]", [("idx", 3, i) for i in U.shard(U.F3_indices(True), seed, 128)], "all"))
    else:
        out.append((f"I3[{seed % 8}/8]", [("i3", i) for i in U.shard(list(range(1444)), seed, 8)], "all"))
        out.append((f"F3c[{seed % 32}/32]", [("idx", 3, i) for i in U.shard(U.F3_indices(True), seed, 32)], "all"))
        out.append((f"MULTI3[{seed % 4}/4]", [("idx", 3, i) for i in U.shard(U.catalogue("multi"), seed, 4)], "all"))
    # multiplexed inputs (one source selects between two 3-variable networks): the same motif is reached in contexts with
    # different dynamics; node-space / literal targets, both strategies, default bound, nothing forbidden
    n0s = [16555679, 0, 8974576]
    n1s = U.shard(U.catalogue("maa"), seed, 2048 if tier == "quick" else 128) + U.shard(U.catalogue("multi"), seed, 8 if tier == "quick" else 1) + \
        U.shard(U.F3_indices(True), seed, 256 if tier == "quick" else 32)
    out.append(("MUX", [("mux", a, b) for a in n0s for b in n1s], "lite"))
    return out


def plan(tier, seed):
    us = universes(tier, seed)
    units = []
    for name, specs, tmode in us:
        for ch in U.chunks(specs, 4 if name != "K" else 1):
            units.append((name, ch, tmode, tier))
    return {
        "units": units, "universes": {n: len(s) for n, s, _ in us},
        "bounds": {"targets": "every non-empty subspace (3^n - 1) for n <= 3; node spaces and single literals for kernel networks",
                   "grid": "strategy {internal, all} x max_drivers {None,0,1,2,3} x forbidden (every subset of variables for n<=3; "
                           "{}, each single variable for larger) x successful_only {True, False}; fresh diagram per call"},
        "rule": "successions compared as a multiset with the reference target-directed expansion; per step the override list compared "
                "as a set with the reference minimal driver sets; flags, forbidden variables and size bounds checked; non-trivial = "
                "distinct (network, target) with >= 2 successions or a step with >= 2 overrides",
        "assumptions": ["earlier-step values take precedence over a driver value for the same variable (as the implementation's percolation does)"],
        "unit_timeout": 2400,
    }


def forb_sets(net):
    if net.n <= 3:
        return [set(c) for k in range(net.n + 1) for c in itertools.combinations(net.names, k)]
    return [set()] + [{nm} for nm in net.names]


def check_target(net, target, res, spec, tier, lite=False):
    from biobalm.control import succession_control, successions_to_target
    vio = []

    def rep(oracle, args, detail):
        vio.append(V(oracle, {"net": list(spec), "target": key(target), "args": args}, f"{net!r}: target {target} {args}: {detail}", site=oracle))

    exp = ref_successions(net, target)
    sd = new_sd(net)
    got = successions_to_target(sd, dict(target))
    res["evals"] += 1
    if canon_succ(got) != canon_succ(exp):
        rep("successions-differ", [], f"got {canon_succ(got)} expected {canon_succ(exp)}")
        return vio, len(exp)
    nt = len(exp) >= 2
    for strategy in ("internal", "all"):
        for maxd in ((None, 0, 1, 2, 3) if not lite else (None,)):
            for forb in (forb_sets(net) if not lite else [set()]):
                if tier == "quick" and len(forb) >= 2 and maxd not in (None, 1):
                    continue
                for so in (True, False):
                    args = [strategy, maxd, sorted(forb), so]
                    sd = new_sd(net)
                    res["evals"] += 1
                    ivs = succession_control(sd, dict(target), strategy=strategy, max_drivers_per_succession_node=maxd,
                                             forbidden_drivers=set(forb), successful_only=so)
                    # expected interventions
                    exp_ivs = []
                    for s in exp:
                        assume = {}
                        ctrls = []
                        for m in s:
                            ctrls.append(ref_drivers(net, m, assume, strategy, maxd, forb))
                            sp = dict(m)
                            sp.update(assume)
                            assume = net.percolate(sp)
                        ok = all(len(c) > 0 for c in ctrls)
                        if ok or not so:
                            exp_ivs.append((tuple(key(m) for m in s), tuple(tuple(canon_ctrl(c)) for c in ctrls), ok))
                    got_ivs = []
                    for iv in ivs:
                        got_ivs.append((tuple(key(m) for m in iv.succession), tuple(tuple(canon_ctrl(c)) for c in iv.control), iv.successful))
                        for c in iv.control:
                            if len(c) != len({key(d) for d in c}):
                                rep("duplicate-override", args, str(c))
                            for d in c:
                                if set(d) & forb:
                                    rep("forbidden-driver-reported", args, str(d))
                                if maxd is not None and len(d) > maxd:
                                    rep("oversized-driver-set", args, str(d))
                            if len(c) >= 2:
                                nt = True
                        if iv.successful != all(len(c) > 0 for c in iv.control):
                            rep("successful-flag-wrong", args, str(iv))
                        if iv.strategy != strategy:
                            rep("strategy-field-wrong", args, str(iv.strategy))
                    if sorted(got_ivs) != sorted(exp_ivs):
                        kind = "interventions-differ"
                        if sorted(x[0] for x in got_ivs) == sorted(x[0] for x in exp_ivs):
                            kind = "override-sets-differ"
                        rep(kind, args, f"got {sorted(got_ivs)} expected {sorted(exp_ivs)}")
    if nt:
        res["nontrivial"].add((repr(spec), key(target)))
    return vio, len(exp)


def run_unit(unit):
    uname, specs, tmode, tier = unit
    res = new_result()
    for spec in specs:
        if spec[0] == "mux":
            from .c18 import mux_net
            net = mux_net(spec[1], spec[2])
        else:
            net = U.resolve(spec)
        res["states"] += net.N + len(net.spaces)
        try:
            with case_timeout(2000):
                vio = []
                for t in targets_of(net, tmode if tmode != "lite" else "nodes"):
                    v, n = check_target(net, t, res, spec, tier, lite=(tmode == "lite"))
                    vio += v
                    res["outcomes"].add(("successions", min(n, 6)))
        except CaseTimeout:
            res["hangs"].append({"case": {"net": list(spec)}, "why": "exceeded 2000 s"})
            continue
        except Exception as e:
            vio = [V("exception", {"net": list(spec)}, f"{type(e).__name__}: {e}", site="exception")]
        best = {}
        for v in vio:
            k = v["oracle"]
            if k not in best or len(str(v["case"])) < len(str(best[k]["case"])):
                best[k] = v
        res["violations"] += list(best.values())
        if len(res["samples"]) < 2:
            res["samples"].append({"net": net.bnet(), "targets": tmode})
    res["transitions"] = res["evals"]
    res["traces"] = res["evals"]
    return res


def replay(case):
    if case["net"][0] == "mux":
        from .c18 import mux_net
        net = mux_net(case["net"][1], case["net"][2])
    else:
        net = U.resolve(case["net"])
    res = new_result()
    if "target" not in case:
        return []
    t = dict(map(tuple, case["target"]))
    vio, _ = check_target(net, t, res, case["net"], "thorough")
    return vio
