"""C12 — attractor sets are the complete attractors and the symbolic fallback agrees (DESIGN §3 C12)."""
from __future__ import annotations

import itertools
from .common import *  # noqa
from .. import universe as U
from ..drv import replay as replay_hist, vset_states
from ..inv import own_attractors, fmt_state

ID = "C12"
LEVEL = "model_checking"


def universes(tier, seed):
    out = [("U2", [("idx", 2, i) for i in range(256)], 2), ("K", [("k", k) for k in U.kernel()], 2)]
    if tier == "quick":
        out.append((f"F3c[{seed % 16}/16]", [("idx", 3, i) for i in U.shard(U.F3_indices(True), seed, 16)], 1))
        out.append((f"MULTI3[{seed % 4}/4]", [("idx", 3, i) for i in U.shard(U.catalogue("multi"), seed, 4)], 1))
        out.append((f"MAA3[{seed % 512}/512]", [("idx", 3, i) for i in U.shard(U.catalogue("maa"), seed, 512)], 1))
        out.append((f"MAA3[{seed % 2048}/2048]+input", [("u", ("idx", 3, i), ("idx", 1, 2)) for i in U.shard(U.catalogue("maa"), seed, 2048)], 0))
    else:
        out = [("U2", [("idx", 2, i) for i in range(256)], 3), ("K", [("k", k) for k, n in U.kernel().items() if len(n.sd[0]) <= 5], 3),
               ("K(large)", [("k", k) for k, n in U.kernel().items() if len(n.sd[0]) > 5], 2)]
        out.append((f"F3c[{seed % 2}/2]", [("idx", 3, i) for i in U.shard(U.F3_indices(True), seed, 2)], 1))
        out.append((f"F3c[{seed % 64}/64]", [("idx", 3, i) for i in U.shard(U.F3_indices(True), seed, 64)], 2))
        out.append(("MULTI3", [("idx", 3, i) for i in U.catalogue("multi")], 1))
        out.append((f"MULTI3[{seed % 8}/8]", [("idx", 3, i) for i in U.shard(U.catalogue("multi"), seed, 8)], 2))
        out.append((f"MAA3[{seed % 64}/64]", [("idx", 3, i) for i in U.shard(U.catalogue("maa"), seed, 64)], 1))
        out.append((f"MAA3[{seed % 64}/64]+input", [("u", ("idx", 3, i), ("idx", 1, 2)) for i in U.shard(U.catalogue("maa"), seed, 64)], 1))
    return out


def plan(tier, seed):
    us = universes(tier, seed)
    units = []
    for name, specs, d in us:
        for ch in U.chunks(specs, 6 if d >= 2 else 30):
            units.append((name, ch, d))
    units.sort(key=lambda u: -u[2])
    return {
        "units": units, "universes": {n: len(s) for n, s, _ in us},
        "bounds": {"base states": "fresh diagram (stub root); fully expanded diagram (every node)",
                   "prefix alphabet": "cand(node, 4 option combos), seeds(node), sets(node), reclaim, pickle, succ(node); all prefixes up to the "
                                      "depth given per universe, then sets(node)",
                   "prefix depth": {n: d for n, _, d in us},
                   "fallback": "symbolic_attractor_fallback(node) directly, and seeds(node, symbolic_fallback=True) forced by "
                               "attractor_candidates_limit in {0, 1}, on stub root, every expanded node and every skip-completed node"},
        "rule": "sets[j] as an explicit state set over all variables == the reference attractor containing seeds[j], lengths equal, "
                "and both equal the node's reference attractors outside its successors; the fallback must describe the same "
                "attractors; non-trivial = distinct (network, node) with a complex attractor or >= 2 attractors",
        "assumptions": [],
        "unit_timeout": 2400,
    }


def prefix_ops(node):
    return [("cand", node, g, s) for g in (True, False) for s in (True, False)] + \
           [("seeds", node), ("sets", node), ("reclaim",), ("pickle",), ("succ", node)]


def judge_sets(net, sd, node):
    out = []
    seeds = sd.node_attractor_seeds(node, compute=True)
    sets = sd.node_attractor_sets(node, compute=True)
    own = own_attractors(net, sd, node)
    if len(seeds) != len(sets):
        return [("sets-and-seeds-length-differ", f"node {node}: {len(sets)} sets, {len(seeds)} seeds")]
    got = []
    for sdict, vs in zip(seeds, sets):
        if len(sdict) != net.n:
            out.append(("seed-not-full-state", f"{sdict}"))
            continue
        a = net.attractor_of(net.state_of(sdict))
        m = vset_states(net, vs)
        got.append(m)
        if a is None:
            out.append(("seed-not-in-attractor", f"node {node}: {fmt_state(net, net.state_of(sdict))}"))
        elif m != a:
            out.append(("set-is-not-the-attractor-of-its-seed", f"node {node}: seed {fmt_state(net, net.state_of(sdict))}: set has "
                        f"{bin(m).count('1')} states, attractor {bin(a).count('1')}"))
    if not sd.node_data(node)["skipped"] and sorted(got) != sorted(own) and not out:
        out.append(("sets-differ-from-node-attractors", f"node {node}: {len(got)} sets vs {len(own)} attractors"))
    return out


def judge_fallback(net, sd, node, how, default_hits=None):
    from biobalm._sd_attractors.attractor_symbolic import symbolic_attractor_fallback
    out = []
    own = own_attractors(net, sd, node)
    if how == "direct":
        seeds, sets = symbolic_attractor_fallback(sd, node)
    else:
        sd.config["attractor_candidates_limit"] = how
        d = sd.node_data(node)
        d["attractor_seeds"] = None
        d["attractor_candidates"] = None
        d["attractor_sets"] = None
        seeds = sd.node_attractor_seeds(node, compute=True, symbolic_fallback=True)
        sets = sd.node_attractor_sets(node, compute=True)
    if len(seeds) != len(sets):
        return [("fallback-sets-and-seeds-length-differ", f"node {node}")]
    got = []
    for sdict, vs in zip(seeds, sets):
        a = net.attractor_of(net.state_of(sdict)) if len(sdict) == net.n else None
        m = vset_states(net, vs)
        got.append(m)
        if a is None or m != a:
            out.append(("fallback-set-is-not-the-attractor-of-its-seed", f"node {node} ({how})"))
    if not out and sorted(got) != sorted(own) and not sd.node_data(node)["skipped"]:
        out.append(("fallback-disagrees-with-node-attractors", f"node {node} ({how}): {len(got)} vs {len(own)}"))
    if not out and sd.node_data(node)["skipped"]:
        if not set(got) <= set(own):
            out.append(("fallback-disagrees-with-node-attractors", f"skip node {node} ({how})"))
        elif default_hits is not None and sorted(got) != sorted(default_hits):
            # a skip node may legitimately leave out what other attractor-free nodes cover, but the fallback must report
            # the same attractors as the default method does for the node in the same diagram state
            out.append(("fallback-disagrees-with-default-method", f"skip node {node} ({how}): fallback {len(got)} attractors, default {len(default_hits)}"))
    return out


BASES = {"fresh": (), "expanded": (("bfs", None, None, None),), "skipped": (("succ", 0), ("skiprem",)),
         # the skip-node pruning reads other nodes' already-known empty results: query every non-skip node first
         "skipped_q": (("succ", 0), ("skiprem",), ("seeds", 0))}


def run_unit(unit):
    uname, specs, depth = unit
    res = new_result()
    for spec in specs:
        net = U.resolve(spec)
        res["states"] += net.N
        try:
            with case_timeout(1500):
                for bname, bops in BASES.items():
                    probe = replay_hist(net, bops)
                    nodes = [0] if bname == "fresh" else list(probe.node_ids())
                    for node in nodes:
                        own = own_attractors(net, probe, node)
                        if len(own) >= 2 or any(a & (a - 1) for a in own):
                            res["nontrivial"].add((repr(spec), bname, node))
                        P = prefix_ops(node)
                        d = depth if not bname.startswith("skipped") else min(depth, 1)
                        for L in range(0, d + 1):
                            for pre in itertools.product(P, repeat=L):
                                hist = tuple(bops) + pre
                                case = {"net": list(spec), "history": [list(x) for x in hist], "node": node, "mode": "sets"}
                                res["evals"] += 1
                                res["transitions"] += len(hist) + 2
                                try:
                                    sd = replay_hist(net, hist)
                                    vs = judge_sets(net, sd, node)
                                except CaseTimeout:
                                    raise
                                except Exception as e:
                                    vs = [("exception", f"{type(e).__name__}: {str(e)[:200]}")]
                                for o, dd in vs:
                                    res["violations"].append(V(o, case, f"{net!r}: after {hist}: {dd}", site=pre[-1][0] if pre else bname))
                        for how in ("direct", 0, 1):
                            case = {"net": list(spec), "history": [list(x) for x in bops], "node": node, "mode": how}
                            res["evals"] += 1
                            try:
                                dsd = replay_hist(net, bops)
                                try:
                                    dh = [net.attractor_of(net.state_of(x)) for x in dsd.node_attractor_seeds(node, compute=True)]
                                except RuntimeError:
                                    dh = None
                                sd = replay_hist(net, bops)
                                vs = judge_fallback(net, sd, node, how, dh)
                            except CaseTimeout:
                                raise
                            except Exception as e:
                                vs = [("exception", f"{type(e).__name__}: {str(e)[:200]}")]
                            res["outcomes"].add((bname, str(how), len(own)))
                            for o, dd in vs:
                                res["violations"].append(V(o, case, f"{net!r}: base {bname}: {dd}", site=f"fallback-{how}"))
        except CaseTimeout:
            res["hangs"].append({"case": {"net": list(spec)}, "why": "exceeded 1500 s"})
        if len(res["samples"]) < 2:
            res["samples"].append({"net": net.bnet(), "prefix_depth": depth})
    best = {}
    for v in res["violations"]:
        k = (v["oracle"], v["site"])
        if k not in best or len(str(v["case"])) < len(str(best[k]["case"])):
            best[k] = v
    res["violations"] = list(best.values())
    res["traces"] = res["evals"]
    return res


def replay(case):
    net = U.resolve(case["net"])
    hist = tuple(tuple(tuple(map(tuple, x)) if isinstance(x, list) and x and isinstance(x[0], list) else (tuple(x) if isinstance(x, list) else x) for x in o) for o in case["history"])
    try:
        with case_timeout(120):
            sd = replay_hist(net, hist)
            vs = judge_sets(net, sd, case["node"]) if case["mode"] == "sets" else judge_fallback(net, sd, case["node"], case["mode"])
    except CaseTimeout:
        return [V("terminates", case, "hang")]
    except Exception as e:
        vs = [("exception", f"{type(e).__name__}: {str(e)[:200]}")]
    return [V(o, case, d) for o, d in vs]
