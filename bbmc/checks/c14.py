"""C14 — cached attractor data is never stale (DESIGN §3 C14)."""
from __future__ import annotations

from .common import *  # noqa
from .. import universe as U
from ..explorer import Explorer, full_ops, query_ops
from ..drv import replay as replay_hist, dump
from ..inv import cache_check
from . import c04

ID = "C14"
LEVEL = "model_checking"

# the simulation budget only scales the number of random-walk rounds; a small value keeps replays cheap (any value must be
# correct: C08), every other setting is the default
CONFIG = {"minimum_simulation_budget": 1}
QUERY = {"seeds", "sets", "cand"}
STRUCT = {"succ", "skip", "bfs", "dfs", "min", "aseeds", "block", "scc", "skiprem", "build", "target"}


def plan(tier, seed):
    K = U.kernel()
    U2 = U.U2c_indices() if tier == "quick" else list(range(256))
    units = []
    unis = {}
    d = 2 if tier == "quick" else 3
    knets = [("k", k) for k, n in K.items() if n.n <= 4]
    u2 = [("idx", 2, i) for i in U2 if c04.sd_size(("idx", 2, i)) >= 2]
    for spec in knets + u2:
        units.append(("full", [spec], d if c04.sd_size(spec) <= 3 else 2, tier))
    unis[f"K(n<=4) + {'U2c' if tier == 'quick' else 'U2'}(|SD|>=2): full alphabet depth {d} + query.structural.query"] = len(knets) + len(u2)
    s3 = [("k", k) for k, n in K.items() if 2 <= len(n.sd[0])] + [x for x in u2 if c04.sd_size(x) >= 3]
    for spec in s3:
        units.append(("shaped3", [spec], 3, tier))
    unis["K + U2(|SD|>=3): [query].[reclaim|pickle].[structural] and [succ/bfs-level].[query any node].[non-plain structural]"] = len(s3)
    big = [("k", k) for k, n in K.items() if n.n > 4]
    for spec in big:
        units.append(("full", [spec], 1 if tier == "quick" else 2, tier))
    unis["K(n>4)"] = len(big)
    if tier == "quick":
        f3 = [("idx", 3, i) for i in U.shard(U.F3_indices(True), seed, 64)] + [("idx", 3, i) for i in U.shard(U.catalogue("multi"), seed, 8)] + \
             [("idx", 3, i) for i in U.shard(U.catalogue("maa"), seed, 1024)]
        fd = 1
    else:
        f3 = [("idx", 3, i) for i in U.shard(U.F3_indices(True), seed, 8)] + [("idx", 3, i) for i in U.catalogue("multi")] + \
             [("idx", 3, i) for i in U.shard(U.catalogue("maa"), seed, 128)]
        fd = 1
        for ch in U.chunks([("idx", 3, i) for i in U.shard(U.F3_indices(True), seed, 512)], 2):
            units.append(("shaped", ch, 2, tier))
    unis[f"F3c/MULTI3/MAA3 shards: stub query then every structural op (depth {fd}+1 shaped)"] = len(f3)
    for ch in U.chunks(f3, 10):
        units.append(("shaped", ch, fd, tier))
    units.sort(key=lambda u: (u[0] != "full", -u[2]))
    return {
        "units": units, "universes": unis,
        "bounds": {"alphabet": "cand (4 option combos), seeds, sets on any node incl. stubs; succ, skip, bfs, dfs, minimal (both), "
                   "pnet per node; bfs/dfs/aseeds/block(4 combos) with size limit in {None,2}; block exact; scc (both); "
                   "skip_remaining; reclaim; pickle; build; target(node spaces, literals)",
                   "full": f"all histories up to depth {d} (depth 2 for diagrams with more than 3 nodes), plus every history query . structural . query (length 3)",
                   "shaped": "every [stub query] . [structural op] history, invariants after each step"},
        "rule": "every reached canonical state: for every node, cached seeds / candidates / sets (as returned with compute=False) are "
                "judged against the reference attractors of the node minus its *current* successors; non-trivial = distinct "
                "canonical state in which some node with successors has a non-None cache",
        "assumptions": ["configuration: defaults except minimum_simulation_budget=1 (fewer random-walk rounds per replay)", "skip nodes: seeds must be sound, duplicate-free and outside successors (not necessarily complete)"],
        "unit_timeout": 3000,
    }


def invariant(net, sd, hist, op, ret):
    out = cache_check(net, sd)
    # what the API returns without recomputation must equal what is cached
    for i in sd.node_ids():
        d = sd.node_data(i)
        for name, fn in (("seeds", sd.node_attractor_seeds), ("sets", sd.node_attractor_sets)):
            try:
                got = fn(i, compute=False)
            except KeyError:
                got = None
            cached = d["attractor_" + name]
            if (got is None) != (cached is None):
                out.append(("compute-false-disagrees-with-cache", f"node {i} {name}"))
        try:
            c = sd.node_attractor_candidates(i, compute=False)
        except KeyError:
            c = None
        if c is not None:
            m = net.mask_of(d["space"])
            from ..inv import own_attractors
            own = own_attractors(net, sd, i)
            cs = 0
            for x in c:
                if len(x) == net.n:
                    cs |= 1 << net.state_of(x)
            if not d["skipped"] and any(not (a & cs) for a in own):
                out.append(("reported-candidates-miss-attractor", f"node {i}"))
    return out


def nontrivial_state(net, sd):
    for i in sd.node_ids():
        d = sd.node_data(i)
        if sd.dag.out_degree(i) > 0 and (d["attractor_seeds"] is not None or d["attractor_candidates"] is not None):
            return True
    return False


def explore_full(net, spec, depth, res):
    raised = []
    ex = Explorer(net, lambda n, s: full_ops(n, s), invariant, config=CONFIG, max_states=6000)
    hists = ex.run(depth=depth)
    vio = [(o, d, h) for o, d, h in ex.violations]
    res["transitions"] += ex.transitions
    # length-3 shaped histories: query . structural . query
    extra = 0
    for h in hists:
        if len(h) == 2 and h[0][0] in QUERY and h[1][0] in STRUCT and depth == 2:
            base = replay_hist(net, h, CONFIG)
            for op in query_ops(net, base):
                sd = replay_hist(net, h, CONFIG)
                extra += 1
                try:
                    sd, _ = apply(sd, op)
                except Exception as e:
                    ex.errors.append((h + (op,), f"{type(e).__name__}: {e}"))
                    continue
                for o, d in invariant(net, sd, h + (op,), op, None):
                    vio.append((o, d, h + (op,)))
    res["transitions"] += extra
    res["states"] += len(ex.states)
    res["traces"] += ex.transitions + extra
    res["evals"] += ex.transitions + extra
    for h in hists:
        pass
    if ex.capped:
        res["caps"].append({"net": list(spec), "cap": "max_states 6000"})
    count(res, "ops_that_raised", len(ex.errors))
    for h, e in ex.errors[:3]:
        res["outcomes"].add(("raised", h[-1][0], e[:60]))
    nt = 0
    for h in hists:
        if len(h) <= 2 and any(o[0] in QUERY for o in h) and any(o[0] in STRUCT for o in h):
            nt += 1
    if nt:
        res["nontrivial"].update((repr(spec), k) for k in range(nt))
    return [V(o, {"net": list(spec), "history": [list(x) for x in h]}, f"{net!r}: after {h}: {d}",
              site=(h[-1][0] if h else "init")) for o, d, h in vio]


def explore_shaped(net, spec, depth, res):
    """stub query, then (depth) structural ops; invariants after each step"""
    vio = []
    sd0 = new_sd(net, CONFIG)
    queries = [("seeds", 0), ("sets", 0), ("cand", 0, False, False)]
    seen = set()
    for q in queries:
        frontier = [(q,)]
        for level in range(depth):
            nxt = []
            for h in frontier:
                base = replay_hist(net, h, CONFIG)
                for op in full_ops(net, base):
                    if op[0] not in STRUCT:
                        continue
                    sd = replay_hist(net, h, CONFIG)
                    res["transitions"] += 1
                    res["evals"] += 1
                    try:
                        sd, _ = apply(sd, op)
                    except Exception as e:
                        count(res, "ops_that_raised")
                        continue
                    for o, d in invariant(net, sd, h + (op,), op, None):
                        vio.append(V(o, {"net": list(spec), "history": [list(x) for x in h + (op,)]}, f"{net!r}: after {h + (op,)}: {d}", site=op[0]))
                    k = dump(net, sd)
                    if k not in seen:
                        seen.add(k)
                        nxt.append(h + (op,))
                        if nontrivial_state(net, sd):
                            res["nontrivial"].add((repr(spec), hash(k)))
            frontier = nxt
    res["states"] += len(seen)
    res["traces"] += res["evals"]
    return vio


NONPLAIN = {"skip", "skiprem", "scc", "build"}


def explore_shaped3(net, spec, res):
    """length-3 histories of two shapes that depth 2 cannot reach:
    (i)  query . (reclaim | pickle) . structural        (data dropped between the query and the expansion)
    (ii) (succ 0 | bfs level 0/1) . query on any node . non-plain structural op (skip, block with sources, scc, build, minimal+skip)"""
    vio = []
    seen = set()

    def step(h, op):
        sd = replay_hist(net, h, CONFIG)
        res["transitions"] += 1
        res["evals"] += 1
        try:
            sd, _ = apply(sd, op)
        except Exception:
            count(res, "ops_that_raised")
            return None
        for o, d in invariant(net, sd, h + (op,), op, None):
            vio.append(V(o, {"net": list(spec), "history": [list(x) for x in h + (op,)]}, f"{net!r}: after {h + (op,)}: {d}", site=op[0]))
        k = dump(net, sd)
        if k not in seen:
            seen.add(k)
            if nontrivial_state(net, sd):
                res["nontrivial"].add((repr(spec), hash(k)))
        return sd

    sd0 = new_sd(net, CONFIG)
    for q in query_ops(net, sd0):
        for mid in (("reclaim",), ("pickle",)):
            h = (q, mid)
            base = replay_hist(net, h, CONFIG)
            for op in full_ops(net, base):
                if op[0] in STRUCT:
                    step(h, op)
    for first in (("succ", 0), ("bfs", 0, 1, None)):
        b1 = replay_hist(net, (first,), CONFIG)
        for q in query_ops(net, b1):
            if q[0] == "cand" and q[2:] in ((True, False), (False, True)):
                continue
            h = (first, q)
            base = replay_hist(net, h, CONFIG)
            for op in full_ops(net, base):
                nonplain = op[0] in NONPLAIN or (op[0] == "min" and op[3]) or (op[0] == "block" and op[3])
                if nonplain or (op[0] == "succ"):
                    step(h, op)
    res["states"] += len(seen)
    res["traces"] = res["evals"]
    return vio


def run_unit(unit):
    kind, specs, depth, tier = unit
    res = new_result()
    for spec in specs:
        net = U.resolve(spec)
        try:
            with case_timeout(2400):
                vio = explore_full(net, spec, depth, res) if kind == "full" else (
                    explore_shaped3(net, spec, res) if kind == "shaped3" else explore_shaped(net, spec, depth, res))
        except CaseTimeout:
            res["hangs"].append({"case": {"net": list(spec)}, "why": "exceeded time cap"})
            res["caps"].append({"net": list(spec), "cap": "time"})
            continue
        seen = set()
        for v in sorted(vio, key=lambda v: len(str(v["case"]))):
            if (v["oracle"], v["site"]) not in seen:
                seen.add((v["oracle"], v["site"]))
                res["violations"].append(v)
        if len(res["samples"]) < 2:
            res["samples"].append({"net": net.bnet(), "kind": kind, "depth": depth})
    return res


def replay(case):
    net = U.resolve(case["net"])
    hist = [tuple(tuple(map(tuple, x)) if isinstance(x, list) else x for x in o) for o in case["history"]]
    out = []
    try:
        with case_timeout(120):
            sd = new_sd(net, CONFIG)
            for op in hist:
                sd, r = apply(sd, op)
                for o, d in invariant(net, sd, hist, op, r):
                    out.append(V(o, case, d, site=op[0]))
    except CaseTimeout:
        out.append(V("terminates", case, "hang"))
    except Exception as e:
        out.append(V("exception", case, f"{type(e).__name__}: {e}"))
    return out
