"""C09 — the trap-space solver returns exactly the requested trap spaces (DESIGN §3 C09)."""
from __future__ import annotations

import itertools
from .common import *  # noqa
from .. import universe as U
from ..drv import bn_of

ID = "C09"
LEVEL = "model_checking"


def universes(tier, seed):
    out = [("U1", [("idx", 1, i) for i in range(4)]), ("U2", [("idx", 2, i) for i in range(256)])]
    u2f = []
    from ..refmodel import net_from_index
    for i in range(256):
        for v in U.with_free_inputs(net_from_index(2, i)):
            u2f.append(("fi", 2, i, sorted(v.inputs)))
    out.append(("U2f", u2f))
    if tier == "quick":
        out.append((f"F3c[{seed % 48}/48]", [("idx", 3, i) for i in U.shard(U.F3_indices(True), seed, 48)]))
        out.append((f"MULTI3[{seed % 3}/3]", [("idx", 3, i) for i in U.shard(U.catalogue("multi"), seed, 3)]))
        out.append(("K3", [("k", k) for k in sorted(U.kernel_small(3))]))
    else:
        out.append(("F3c", [("idx", 3, i) for i in U.F3_indices(True)]))
        out.append(("MULTI3", [("idx", 3, i) for i in U.catalogue("multi")]))
        out.append(("K4", [("k", k) for k in sorted(U.kernel_small(4))]))
        out.append((f"MAA3[{seed % 32}/32]", [("idx", 3, i) for i in U.shard(U.catalogue("maa"), seed, 32)]))
    return out


def plan(tier, seed):
    us = universes(tier, seed)
    units = []
    for name, specs in us:
        full = name in ("U1", "U2", "U2f")
        for ch in U.chunks(specs, 8 if full else 40):
            units.append((name, ch, "full" if full else "reduced", tier))
    return {
        "units": units, "universes": {n: len(s) for n, s in us},
        "bounds": {"full grid (n<=2)": "problem x reverse_time x every ensure space x avoid lists {[], every single space"
                   + (", every ordered pair (pairs: no limit, source lists {None, []})" if tier != "quick" else "") + "} x source lists {None, every subset} x limits {None,1,2}; "
                   "reduced STG: every retained set x ensure x avoid x limit; network given as BooleanNetwork and as Petri net",
                   "reduced grid (n=3)": "avoid lists {[], every minimal/maximal trap space}, source lists {None, []}, limits {None,1}"},
        "rule": "every solver call of the grid compared with the reference enumeration over all 3^n subspaces; "
                "non-trivial = distinct (network, problem, direction) whose expected answer has >= 2 spaces",
        "assumptions": ["solution_limit=0 is outside the alphabet (documented in DESIGN: the wrapper returns one solution)"],
        "unit_timeout": 1200,
    }


def expected(net, problem, rev, ens, avoid, src):
    T = net.rev_trap_spaces if rev else net.trap_spaces
    cand = [t for t in T if sub(t, ens) and not any(sub(t, a) for a in avoid)]
    if problem == "min":
        return [t for t in cand if not any(u is not t and sub(u, t) for u in cand)]
    if problem == "fix":
        return [t for t in cand if len(t) == net.n]
    c2 = [t for t in cand if len(t) > len(ens) and all(s in t for s in src)]
    return [t for t in c2 if not any(u is not t and sub(t, u) for u in c2)]


def expected_reduced(net, ret, ens, avoid):
    out = []
    me = net.mask_of(ens)
    for s in range(net.N):
        if not (me >> s) & 1:
            continue
        d = net.dict_of(s)
        if any(sub(d, a) for a in avoid):
            continue
        ok = True
        for i, nm in enumerate(net.names):
            b = (s >> i) & 1
            if net.f(i, s) != b and not (nm in ret and ret[nm] == b):
                ok = False
                break
        if ok:
            out.append(d)
    return out


def compare(got, exp, limit):
    g = sorted(map(key, got))
    e = sorted(map(key, exp))
    if len(g) != len(set(g)):
        return "duplicate-solution"
    if limit is None:
        if g != e:
            return "wrong-solution-set"
        return None
    if not set(g) <= set(e):
        return "spurious-solution-under-limit"
    if len(g) != min(limit, len(e)):
        return "limit-not-a-truncation"
    return None


def grid(net, mode, tier):
    SP = [sp for sp, _ in net.spaces]
    if mode == "full":
        avoids = [[]] + [[a] for a in SP]
        if tier != "quick" and net.n <= 2:
            avoids += [[a, b] for a in SP for b in SP if a is not b]
        elif net.n <= 2:
            # quick: the ordered pairs in which one avoided space contains the other
            avoids += [[a, b] for a in SP for b in SP if a is not b and (sub(a, b) or sub(b, a))]
        srcs = [None] + [list(c) for k in range(net.n + 1) for c in itertools.combinations(net.names, k)]
        limits = [None, 1, 2]
        ens_list = SP
        rets = SP
    else:
        ext = {key(t): t for t in net.min_traps}
        for t in net.max_traps_in({}):
            ext[key(t)] = t
        avoids = [[]] + [[a] for a in ext.values()]
        srcs = [None, []]
        limits = [None, 1]
        ens_list = SP
        rets = [{}] + [net.dict_of(s) for s in (0, net.N - 1)] + [{nm: v} for nm in net.names for v in (0, 1)]
    return ens_list, avoids, srcs, limits, rets


def specialize(net, j, v):
    """the reference network with variable j fixed to v and removed (what restrict_petrinet_to_subspace encodes)"""
    from ..refmodel import Net
    rest = [i for i in range(net.n) if i != j]
    tables = []
    for i in rest:
        m = 0
        for r in range(1 << len(rest)):
            s = (v << j)
            for pos, k in enumerate(rest):
                if (r >> pos) & 1:
                    s |= 1 << k
            if net.f(i, s):
                m |= 1 << r
        tables.append(m)
    return Net([net.names[i] for i in rest], tables, inputs=[pos for pos, k in enumerate(rest) if k in net.inputs])


def check_restricted(net, pn, res, spec, report):
    """trappist on the Petri net restricted to x=v must solve the specialised network (a restriction can turn a variable into
    an input; default source detection has to see that) - wave-5 change C09-w5-2"""
    from biobalm.trappist_core import trappist
    from biobalm.petri_net_translation import restrict_petrinet_to_subspace
    if net.n < 2:
        return
    for j, nm in enumerate(net.names):
        for v in (0, 1):
            rp = restrict_petrinet_to_subspace(pn, {nm: v})
            rn = specialize(net, j, v)
            for rev in (False, True):
                for problem in ("min", "max", "fix"):
                    exp = expected(rn, problem, rev, {}, [], rn.sources)
                    call = ["trappist", problem, rev, [], [], None, None, f"pn|{nm}={v}"]
                    res["evals"] += 1
                    got = trappist(rp, problem=problem, reverse_time=rev)
                    err = compare(got, exp, None)
                    if err:
                        report(err, call, f"restricted to {nm}={v}: got {sorted(map(key, got))} expected {sorted(map(key, exp))}")


def check_net(net, mode, tier, res, spec):
    from biobalm.trappist_core import trappist, compute_fixed_point_reduced_STG
    from biobalm.petri_net_translation import network_to_petrinet
    bn = bn_of(net).infer_valid_graph()
    pn = network_to_petrinet(bn)
    ens_list, avoids, srcs, limits, rets = grid(net, mode, tier)
    default_src = net.sources
    vio = []

    def report(oracle, call, detail):
        vio.append(V(oracle, {"net": list(spec), "call": call}, f"{net!r}: {detail}", site=call[0] + ":" + str(call[1])))

    for rev in (False, True):
        for problem in ("min", "max", "fix"):
            nontriv = False
            for ens in ens_list:
                if problem == "max" and len(ens) == net.n:
                    continue
                for avoid in avoids:
                    if tier == "quick" and len(avoid) >= 2 and ens:
                        continue  # quick: avoid pairs only with the whole space as enclosing subspace
                    for osv in ((srcs if len(avoid) < 2 else [None, []]) if problem == "max" else [None]):
                        src = default_src if osv is None else osv
                        exp = expected(net, problem, rev, ens, avoid, src)
                        if len(exp) >= 2:
                            nontriv = True
                        for lim in (limits if ((not avoid or mode == "full") and len(avoid) < 2) else [None]):
                            for form in (("pn", "bn") if (not avoid and lim is None) else ("pn",)):
                                call = ["trappist", problem, rev, key(ens), [key(a) for a in avoid], osv, lim, form]
                                res["evals"] += 1
                                got = trappist(pn if form == "pn" else bn, problem=problem, reverse_time=rev, solution_limit=lim,
                                               ensure_subspace=ens, avoid_subspaces=avoid, optimize_source_variables=osv)
                                err = compare(got, exp, lim)
                                if err:
                                    report(err, call, f"got {sorted(map(key, got))} expected {sorted(map(key, exp))}")
            if nontriv:
                res["nontrivial"].add((repr(spec), problem, rev))
    check_restricted(net, pn, res, spec, report)
    for ret in rets:
        for ens in ens_list:
            for avoid in avoids:
                if tier == "quick" and len(avoid) >= 2 and (ens or len(ret) > 1):
                    continue
                exp = expected_reduced(net, ret, ens, avoid)
                for lim in (limits if ((not avoid or mode == "full") and len(avoid) < 2) else [None]):
                    call = ["reduced_stg", key(ret), None, key(ens), [key(a) for a in avoid], None, lim, "pn"]
                    res["evals"] += 1
                    got = compute_fixed_point_reduced_STG(pn, ret, ensure_subspace=ens, avoid_subspaces=avoid, solution_limit=lim)
                    err = compare(got, exp, lim)
                    if err:
                        report(err, call, f"got {sorted(map(key, got))} expected {sorted(map(key, exp))}")
    return vio


def run_unit(unit):
    uname, specs, mode, tier = unit
    res = new_result()
    for spec in specs:
        net = U.resolve(spec)
        res["states"] += len(net.spaces) + net.N
        try:
            with case_timeout(300):
                vio = check_net(net, mode, tier, res, spec)
        except CaseTimeout:
            res["hangs"].append({"case": {"net": list(spec)}, "why": "network grid exceeded 300 s"})
            continue
        res["traces"] += 1
        res["outcomes"].add((len(net.trap_spaces), len(net.rev_trap_spaces), len(net.min_traps)))
        # keep one violation per (oracle, site) per network
        seen = set()
        for v in vio:
            if (v["oracle"], v["site"]) not in seen:
                seen.add((v["oracle"], v["site"]))
                res["violations"].append(v)
        if len(res["samples"]) < 2:
            res["samples"].append({"net": net.bnet(), "grid": mode})
    res["transitions"] = res["evals"]
    return res


def replay(case):
    from biobalm.trappist_core import trappist, compute_fixed_point_reduced_STG
    from biobalm.petri_net_translation import network_to_petrinet
    net = U.resolve(case["net"])
    bn = bn_of(net).infer_valid_graph()
    pn = network_to_petrinet(bn)
    kind, a, rev, ens, avoid, osv, lim, form = case["call"]
    if isinstance(form, str) and form.startswith("pn|"):
        out = []
        check_restricted(net, pn, new_result(), case["net"], lambda err, call, detail: out.append(V(err, {"net": case["net"], "call": call}, detail)) if call == list(case["call"]) else None)
        return out
    ens = dict(map(tuple, ens))
    avoid = [dict(map(tuple, x)) for x in avoid]
    if kind == "trappist":
        src = net.sources if osv is None else osv
        exp = expected(net, a, rev, ens, avoid, src)
        got = trappist(pn if form == "pn" else bn, problem=a, reverse_time=rev, solution_limit=lim, ensure_subspace=ens,
                       avoid_subspaces=avoid, optimize_source_variables=osv)
    else:
        ret = dict(map(tuple, a))
        exp = expected_reduced(net, ret, ens, avoid)
        got = compute_fixed_point_reduced_STG(pn, ret, ensure_subspace=ens, avoid_subspaces=avoid, solution_limit=lim)
    err = compare(got, exp, lim)
    return [V(err, case, f"got {sorted(map(key, got))} expected {sorted(map(key, exp))}")] if err else []
