"""C13 — every operation terminates within bounded work (DESIGN §3 C13)."""
from __future__ import annotations

from .common import *  # noqa
from .. import universe as U
from ..explorer import Explorer, full_ops, targets_of
from ..drv import replay as replay_hist, dump
from ..workmon import MON, WorkBudgetExceeded

ID = "C13"
LEVEL = "model_checking"
HANG_IS_VIOLATION = True


def budgets(net, config=None):
    sdn = len(net.sd[0])
    msb = (config or {}).get("minimum_simulation_budget", 1000)
    general = 2000 + 100 * (2 ** net.n) * (sdn + 1)
    sim = 8 * max(1024, msb * net.n) * (2 ** net.n) * (net.n + 1)
    return general, sim


SHAPE4_CYCLE_FP = "A, A&B\nB, (!A&B)|(A&!B&C)\nC, (!C&!D)|(A&!C&D)|(A&C&!D)\nD, (!D&!B&C)|(!D&B&!C)|(D&B)\n"


def shapes4():
    import itertools
    out = []
    for perm in itertools.permutations("ABCD"):
        ren = dict(zip("ABCD", perm))
        lines = ["".join(ren.get(c, c) for c in ln) for ln in SHAPE4_CYCLE_FP.strip().split("\n")]
        out.append(("bnet", "\n".join(sorted(lines)) + "\n"))
    return out


def universes(tier, seed):
    """(name, specs, ops)"""
    ALL = [("build",), ("bfs", None, None, None), ("scc", True), ("aseeds", None), ("min", None, None, True)]
    out = [("U1", [("idx", 1, i) for i in range(4)], ALL), ("U2", [("idx", 2, i) for i in range(256)], ALL)]
    out.append(("K", [("k", k) for k in U.kernel()], ALL))
    from ..refmodel import net_from_index
    u2f = []
    for i in range(256):
        for v in U.with_free_inputs(net_from_index(2, i)):
            u2f.append(("fi", 2, i, sorted(v.inputs)))
    out.append(("U2f", u2f, ALL))
    # hand-made 4-variable shapes for branches of symbolic_attractor_test that no catalogue network reaches (a 4-cycle and a
    # fixed point in one unexpanded node: forward growth is postponed while a non-conflict variable is still unsaturated), under
    # every assignment of the four names to the roles (the BDD variable order drives the size heuristic that postpones growth)
    out.append(("SHAPES4", shapes4(), ALL))
    if tier == "quick":
        out.append((f"MULTI3[{seed % 8}/8]", [("idx", 3, i) for i in U.shard(U.catalogue("multi"), seed, 8)], ALL[:3]))
        out.append((f"NFVS3_multi[{seed % 8}/8]", [("idx", 3, i) for i in U.shard(U.catalogue("nfvs_multi"), seed, 8)], ALL[:3]))
        out.append((f"F3c[{seed % 16}/16]", [("idx", 3, i) for i in U.shard(U.F3_indices(True), seed, 16)], ALL[:2]))
        out.append((f"MAA3[{seed % 512}/512]", [("idx", 3, i) for i in U.shard(U.catalogue("maa"), seed, 512)], [ALL[0], ALL[3]]))
        out.append((f"NFVS3[{seed % 2048}/2048]", [("idx", 3, i) for i in U.shard(U.catalogue("nfvs"), seed, 2048)], [ALL[0], ALL[3]]))
        out.append((f"U3c[idx={seed % 8191} mod 8191]", [("idx", 3, i) for i in U.U3c_shard(seed, 8191)], [ALL[0]]))
    else:
        out.append(("MULTI3", [("idx", 3, i) for i in U.catalogue("multi")], ALL))
        out.append(("NFVS3_multi", [("idx", 3, i) for i in U.catalogue("nfvs_multi")], ALL))
        out.append((f"F3c[{seed % 2}/2]", [("idx", 3, i) for i in U.shard(U.F3_indices(True), seed, 2)], ALL[:3]))
        out.append((f"MAA3[{seed % 32}/32]", [("idx", 3, i) for i in U.shard(U.catalogue("maa"), seed, 32)], ALL[:3]))
        out.append((f"NFVS3[{seed % 128}/128]", [("idx", 3, i) for i in U.shard(U.catalogue("nfvs"), seed, 128)], ALL[:2]))
        out.append((f"P4c[{seed % 2}/2]", [("p4", a, b) for a, b in U.shard(U.P4_pairs(True), seed, 2)], ALL[:2]))
        out.append((f"U3c[idx={seed % 509} mod 509]", [("idx", 3, i) for i in U.U3c_shard(seed, 509)], [ALL[0]]))
    return out


def plan(tier, seed):
    us = universes(tier, seed)
    units = []
    for name, specs, ops in us:
        for ch in U.chunks(specs, 25):
            units.append(("inputs", name, ch, ops))
    K = U.kernel()
    if tier == "quick":
        hist = [("k", k) for k, n in K.items() if n.n <= 4 and len(n.sd[0]) <= 4] + \
               [("idx", 2, i) for i in U.U2c_indices() if 2 <= len(U.resolve(("idx", 2, i)).sd[0]) <= 3]
    else:
        hist = [("k", k) for k, n in K.items() if n.n <= 4] + [("idx", 2, i) for i in U.U2c_indices()]
    d = 1 if tier == "quick" else 2
    for spec in hist:
        units.append(("hist", "K+U2c", [spec], d if len(U.resolve(spec).sd[0]) <= 3 else 1))
    # name sanitization (part of constructing a diagram from a network with awkward names): every ordered triple of the pool
    from .c17 import NASTY
    import itertools
    triples = list(itertools.permutations(NASTY, 3))
    for ch in U.chunks(triples, 120):
        units.append(("sanitize", "names", ch, None))
    units.sort(key=lambda u: u[0] != "hist")
    return {
        "units": units, "universes": {**{n: len(s) for n, s, _ in us}, f"history states depth {d} (K n<=4, U2c)": len(hist)},
        "bounds": {"budget (loop back-edges per loop site per public call)": "2000 + 100*2^n*(|SD|+1); simulation loops: "
                   "8*max(1024, minimum_simulation_budget*n)*2^n*(n+1)",
                   "inputs": "build, bfs, scc, aseeds, minimal(skip) + sets on every node + symbolic fallback (stub and expanded "
                             "root) + both control strategies for every node-space/literal target",
                   "histories": f"every operation of the full alphabet on every state reachable by {d} call(s)"},
        "rule": "work measured as executed loop back-edges inside biobalm code (sys.monitoring); each public call must stay below "
                "the budget at every loop site and return or raise a documented error; a soft timeout or a killed worker "
                "counts as a violation too; non-trivial = distinct network with a complex or motif-avoidant attractor",
        "assumptions": ["budgets are >= 15x the largest count observed on the unchanged tree for the same bound (ratio recorded in counters)"],
        "unit_timeout": 1500,
    }


def monitored(net, fn, res, case, config=None):
    g, s = budgets(net, config)
    MON.reset(g, s)
    try:
        with case_timeout(30):
            fn()
    except WorkBudgetExceeded as e:
        return [V("work-budget-exceeded", case, f"{net!r}: {e} (budget {g}/{s})", site=f"{e.filename.split('/biobalm/')[-1]}:{e.line}")]
    except CaseTimeout:
        return [V("terminates", case, f"{net!r}: call exceeded 30 s", site="timeout")]
    except (RuntimeError, KeyError):
        pass
    finally:
        mg, ms = MON.max_by_kind()
        res["counters"]["max_general_permille_of_budget"] = max(res["counters"].get("max_general_permille_of_budget", 0), int(1000 * mg / g))
        res["counters"]["max_backedges_one_site_one_call"] = max(res["counters"].get("max_backedges_one_site_one_call", 0), mg, ms)
        res["counters"]["max_simulation_permille_of_budget"] = max(res["counters"].get("max_simulation_permille_of_budget", 0), int(1000 * ms / s))
        # disarm: whatever the harness itself runs next (history replays of the explorer) is not a monitored call and must not
        # be charged against the last call's budget
        MON.reset(10 ** 15, 10 ** 15)
    return []


INPUT_OPS = [("build",), ("bfs", None, None, None), ("scc", True), ("aseeds", None), ("min", None, None, True)]


def check_inputs(net, spec, res, ops=None):
    from biobalm.control import succession_control
    vio = []
    for op in (ops or INPUT_OPS):
        case = {"net": list(spec), "ops": [list(op), "sets(all)"]}
        sd = new_sd(net)
        res["evals"] += 1

        def f():
            apply(sd, op)
        vio += monitored(net, f, res, case)
        for i in list(sd.node_ids()):
            res["evals"] += 1
            vio += monitored(net, lambda: sd.node_attractor_sets(i, compute=True), res, case)
    # attractor queries on the unexpanded root (all attractors of the network in one node)
    for q in (("seeds", 0), ("sets", 0), ("cand", 0, False, False)):
        case = {"net": list(spec), "ops": [list(q)]}
        sd = new_sd(net)
        res["evals"] += 1
        vio += monitored(net, lambda: apply(sd, q), res, case)
    # the numeric configuration fields at their smallest values (work bounds must hold for every option / limit combination)
    cfgs = ({"minimum_simulation_budget": 0}, {"minimum_simulation_budget": 1}, {"retained_set_optimization_threshold": 0},
            {"retained_set_optimization_threshold": 1}, {"nfvs_size_threshold": 0}, {"attractor_candidates_limit": 2},
            {"minimum_simulation_budget": 0, "retained_set_optimization_threshold": 1})
    # the configuration star runs on the small universes and on the multi-attractor catalogues (where candidates survive to
    # the simulation / regeneration stages); elsewhere only the simulation budget is varied
    if not (net.n <= 1 or spec[0] == "k" or (net.n == 2 and hash(repr(spec)) % 2 == 0)
            or (len(net.attractors) >= 2 and net.n <= 3 and hash(repr(spec)) % 8 == 0)):
        cfgs = cfgs[:1]
    for cfg in cfgs:
        for ops in ((("seeds", 0),), (("cand", 0, True, True),), (("bfs", None, None, None), ("allseeds",))):
            case = {"net": list(spec), "config": cfg, "ops": [list(o) for o in ops]}
            sd = new_sd(net, cfg)
            res["evals"] += 1

            def g():
                s2 = sd
                for o in ops:
                    s2, _ = apply(s2, o)
            vio += monitored(net, g, res, case, cfg)
    # symbolic fallback on stub root and on expanded root
    for pre in ((), (("succ", 0),)):
        case = {"net": list(spec), "ops": [list(o) for o in pre] + ["fallback(0)"]}
        sd = replay_hist(net, pre)
        sd.config["attractor_candidates_limit"] = 1
        res["evals"] += 1
        vio += monitored(net, lambda: sd.node_attractor_seeds(0, compute=True, symbolic_fallback=True), res, case)
    # control
    for t in targets_of(net, "nodes"):
        for strat in ("internal", "all"):
            case = {"net": list(spec), "ops": [["control", key(t), strat, None, [], True]]}
            sd = new_sd(net)
            res["evals"] += 1
            vio += monitored(net, lambda: succession_control(sd, t, strategy=strat), res, case)
    return vio


def check_hist(net, spec, depth, res):
    vio = []
    ex = Explorer(net, lambda n, s: full_ops(n, s), None, max_states=300)
    hs = ex.run(depth=depth)
    if ex.capped:
        res["caps"].append({"net": repr(net)[:80], "cap": "max_states"})
    res["states"] += len(ex.states)
    for h in hs:
        base = replay_hist(net, h)
        for op in full_ops(net, base):
            sd = replay_hist(net, h)
            case = {"net": list(spec), "ops": [list(x) for x in h] + [list(op)]}
            res["evals"] += 1
            vio += monitored(net, lambda: apply(sd, op), res, case)
    return vio


def run_unit(unit):
    kind, uname, specs, arg = unit
    MON.install()
    res = new_result()
    if kind == "sanitize":
        from .c17 import build_nasty
        from biobalm.petri_net_translation import sanitize_network_names
        base = U.kernel()["doc_example"]
        for names in specs:
            bn = build_nasty(base, names)
            res["evals"] += 1
            case = {"net": ["k", "doc_example"], "names": list(names), "ops": ["sanitize"]}
            for v in monitored(base, lambda: sanitize_network_names(bn), res, case):
                res["violations"].append(v)
        res["transitions"] = res["evals"]
        res["states"] = res["evals"]
        res["samples"].append({"kind": "sanitize", "names": list(specs[0])})
        seen = set()
        res["violations"] = [v for v in res["violations"] if not ((v["oracle"], v["site"]) in seen or seen.add((v["oracle"], v["site"])))]
        return res
    for spec in specs:
        net = U.resolve(spec)
        if any(a & (a - 1) for a in net.attractors) or net.maa:
            res["nontrivial"].add(repr(spec))
        if kind == "inputs":
            vio = check_inputs(net, spec, res, arg)
        else:
            vio = check_hist(net, spec, arg, res)
        res["traces"] += 1
        seen = set()
        for v in vio:
            if (v["oracle"], v["site"]) not in seen:
                seen.add((v["oracle"], v["site"]))
                res["violations"].append(v)
        if len(res["samples"]) < 2:
            res["samples"].append({"net": net.bnet(), "kind": kind})
    res["transitions"] = res["evals"]
    res["states"] += len(specs)
    return res


def replay(case):
    MON.install()
    net = U.resolve(case["net"])
    res = new_result()
    if case.get("ops") == ["sanitize"]:
        from .c17 import build_nasty
        from biobalm.petri_net_translation import sanitize_network_names
        bn = build_nasty(net, tuple(case["names"]))
        return monitored(net, lambda: sanitize_network_names(bn), res, case)
    ops = case["ops"]
    pre = []
    last = None
    for o in ops:
        if isinstance(o, str):
            last = o
        else:
            pre.append(tuple(tuple(map(tuple, x)) if isinstance(x, list) and x and isinstance(x[0], list) else (tuple(x) if isinstance(x, list) else x) for x in o))
    out = []
    cfg = case.get("config")
    sd = new_sd(net, cfg)
    if cfg is not None:
        def g():
            s2 = sd
            for o in pre:
                s2, _ = apply(s2, o)
        return monitored(net, g, res, case, cfg)
    for op in pre:
        out += monitored(net, lambda: apply(sd, op), res, case)
    if last == "sets(all)":
        for i in list(sd.node_ids()):
            out += monitored(net, lambda: sd.node_attractor_sets(i, compute=True), res, case)
    elif last == "fallback(0)":
        sd.config["attractor_candidates_limit"] = 1
        out += monitored(net, lambda: sd.node_attractor_seeds(0, compute=True, symbolic_fallback=True), res, case)
    return out
