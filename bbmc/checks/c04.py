"""C04 — lazily built diagrams are always a faithful part of the full diagram (DESIGN §3 C04)."""
from __future__ import annotations

from .common import *  # noqa
from .. import universe as U
from ..explorer import Explorer, plain_ops
from ..drv import replay as replay_hist, structure, dump
from ..inv import structure_check

ID = "C04"
LEVEL = "model_checking"


def sd_size(spec):
    return len(U.resolve(spec).sd[0])


def universes(tier, seed):
    """(name, specs, mode); mode = ("closure", limits) | ("depth", d, limits)"""
    out = []
    K = U.kernel()
    U2 = U.U2c_indices() if tier == "quick" else list(range(256))
    u2name = "U2c" if tier == "quick" else "U2"
    if tier == "quick":
        out.append(("K(|SD|<=3)", [("k", k) for k, n in K.items() if len(n.sd[0]) <= 3 and n.n <= 4], ("closure", "few")))
        out.append(("K(|SD|4..9)", [("k", k) for k, n in K.items() if 4 <= len(n.sd[0]) <= 9 and n.n <= 4], ("depth", 2, "few")))
        out.append((u2name + "(|SD|<=3)", [("idx", 2, i) for i in U2 if sd_size(("idx", 2, i)) <= 3], ("closure", "few")))
        out.append((u2name + "(|SD|>3)", [("idx", 2, i) for i in U2 if sd_size(("idx", 2, i)) > 3], ("depth", 2, "few")))
        out.append(("K,limit sweep", [("k", k) for k, n in K.items() if n.n <= 4], ("depth", 1, "all")))
        out.append((u2name + ",limit sweep", [("idx", 2, i) for i in U2], ("depth", 1, "all")))
        out.append((f"F3c[{seed % 8}/8]", [("idx", 3, i) for i in U.shard(U.F3_indices(True), seed, 8)], ("depth", 1, "few")))
        out.append(("MULTI3", [("idx", 3, i) for i in U.catalogue("multi")], ("depth", 1, "few")))
        out.append(("K(n>4)", [("k", k) for k, n in K.items() if n.n > 4], ("depth", 1, "few")))
    else:
        out.append(("K(|SD|<=3)", [("k", k) for k, n in K.items() if len(n.sd[0]) <= 3 and n.n <= 4], ("closure", "all")))
        out.append(("K(|SD|4..5)", [("k", k) for k, n in K.items() if 4 <= len(n.sd[0]) <= 5 and n.n <= 4], ("closure", "few")))
        out.append(("K(rest)", [("k", k) for k, n in K.items() if len(n.sd[0]) > 5 or n.n > 4], ("depth", 2, "few")))
        out.append((u2name + "(|SD|<=3)", [("idx", 2, i) for i in U2 if sd_size(("idx", 2, i)) <= 3], ("closure", "all")))
        out.append((u2name + "(|SD|=4)", [("idx", 2, i) for i in U2 if sd_size(("idx", 2, i)) == 4], ("closure", "few")))
        out.append((u2name + "(|SD|>4)", [("idx", 2, i) for i in U2 if sd_size(("idx", 2, i)) > 4], ("depth", 2, "few")))
        out.append(("F3c", [("idx", 3, i) for i in U.F3_indices(True)], ("depth", 1, "few")))
        out.append((f"F3c[{seed % 256}/256]", [("idx", 3, i) for i in U.shard(U.F3_indices(True), seed, 256)], ("depth", 2, "few")))
        out.append(("MULTI3", [("idx", 3, i) for i in U.catalogue("multi")], ("depth", 1, "few")))
        out.append((f"MULTI3[{seed % 16}/16]", [("idx", 3, i) for i in U.shard(U.catalogue("multi"), seed, 16)], ("depth", 2, "few")))
    return out


def plan(tier, seed):
    us = universes(tier, seed)
    units = []
    for name, specs, mode in us:
        size = 1 if (mode[0] == "closure" or mode[1] >= 2) else 25
        for ch in U.chunks(specs, size):
            units.append((name, ch, mode, tier))
    units.sort(key=lambda u: (u[2][0] != "closure", -(u[2][1] if u[2][0] == "depth" else 9)))
    return {
        "units": units, "universes": {n: len(s) for n, s, _ in us},
        "bounds": {"alphabet": "plain expansion calls: succ(node), bfs/dfs(start node, level/stack limit, size limit), "
                   "minimal(start node, size limit), attractor-seed(size limit), block without source shortcuts(maa, size "
                   "limit), target(every node space and single literal, size limit)",
                   "limits=few": "size limit in {None,2}, level/stack limit in {None,0,1}",
                   "limits=all": "size limit in {None,1..|full diagram|+1}, level/stack limit in {None,0,1,2}",
                   "modes": {n: list(m) for n, _, m in us},
                   "closure": "BFS until no new canonical state (true reachability, no depth bound)",
                   "max_states_cap": 4000},
        "rule": "every reached canonical state: structural invariant against the reference diagram, plus the differential "
                "step 'append expand_bfs()' compared with a fresh expand_bfs() and with the reference; non-trivial = distinct "
                "canonical diagram state with at least one expanded and one unexpanded node",
        "assumptions": ["canonical state = drv.dump (every field read by biobalm code, incl. caches, ids, edge order)"],
        "unit_timeout": 3000,
    }


def make_invariant(net, fresh_struct):
    def invariant(net_, sd, hist, op, ret):
        out = structure_check(net, sd, faithful=True)
        return out
    return invariant


def explore_net(net, spec, mode, tier, res):
    fresh = new_sd(net)
    fresh.expand_bfs()
    fresh_struct = structure(fresh)
    if mode[0] == "closure":
        ops = lambda n, s: plain_ops(n, s, limits=mode[1], targets="nodes")
        depth = None
    else:
        ops = lambda n, s: plain_ops(n, s, limits=mode[2], targets="nodes")
        depth = mode[1]
    ex = Explorer(net, ops, make_invariant(net, fresh_struct), max_states=4000)
    hists = ex.run(depth=depth)
    vio = []
    for o, d, h in ex.violations:
        vio.append(V(o, {"net": list(spec), "history": [list(x) for x in h]}, f"{net!r}: after {h}: {d}", site=h[-1][0] if h else "init"))
    for h, e in ex.errors:
        vio.append(V("exception", {"net": list(spec), "history": [list(x) for x in h]}, f"{net!r}: {h}: {e}", site=h[-1][0]))
    # differential closing step on every reached state
    for h in hists:
        sd = replay_hist(net, h)
        nexp = sum(1 for i in sd.node_ids() if sd.node_data(i)["expanded"])
        if 0 < nexp < len(sd):
            res["nontrivial"].add((repr(spec), hash(dump(net, sd))))
        try:
            r = sd.expand_bfs()
        except Exception as e:
            vio.append(V("exception", {"net": list(spec), "history": [list(x) for x in h] + [["bfs", None, None, None]]},
                         f"{type(e).__name__}: {e}", site="closing-bfs"))
            continue
        res["transitions"] += 1
        case = {"net": list(spec), "history": [list(x) for x in h] + [["bfs", None, None, None]]}
        if r is not True:
            vio.append(V("closing-bfs-incomplete", case, f"{h}", site="closing-bfs"))
        st = structure(sd)
        if st != fresh_struct:
            vio.append(V("continued-diagram-differs-from-fresh", case, f"{net!r}: after {h}: {sorted(st)} vs {sorted(fresh_struct)}", site="closing-bfs"))
        if not sd.is_isomorphic(fresh):
            vio.append(V("continued-diagram-not-isomorphic", case, f"{net!r}: after {h}", site="closing-bfs"))
        for o, d in structure_check(net, sd, faithful=True):
            vio.append(V(o, case, f"{net!r}: after {h}+bfs: {d}", site="closing-bfs"))
    res["states"] += len(ex.states)
    res["transitions"] += ex.transitions
    res["traces"] += ex.transitions + len(hists)
    res["evals"] += ex.transitions + len(hists)
    if ex.capped:
        res["caps"].append({"net": list(spec), "cap": "max_states 4000"})
    res["outcomes"].add((len(ex.states), max((len(h) for h in hists), default=0)))
    count(res, "longest_shortest_history", 0)
    res["counters"]["longest_shortest_history"] = max(res["counters"]["longest_shortest_history"], max((len(h) for h in hists), default=0))
    return vio


def run_unit(unit):
    uname, specs, mode, tier = unit
    res = new_result()
    for spec in specs:
        net = U.resolve(spec)
        try:
            with case_timeout(2400 if mode[0] == "closure" else 600):
                vio = explore_net(net, spec, mode, tier, res)
        except CaseTimeout:
            res["hangs"].append({"case": {"net": list(spec)}, "why": "exploration exceeded its time cap"})
            res["caps"].append({"net": list(spec), "cap": "time"})
            continue
        seen = set()
        for v in sorted(vio, key=lambda v: len(v["case"]["history"])):
            if (v["oracle"], v["site"]) not in seen:
                seen.add((v["oracle"], v["site"]))
                res["violations"].append(v)
        if len(res["samples"]) < 2:
            res["samples"].append({"net": net.bnet(), "mode": str(mode)})
    return res


def replay(case):
    net = U.resolve(case["net"])
    hist = [tuple(tuple(map(tuple, x)) if isinstance(x, list) else x for x in o) for o in case["history"]]
    out = []
    try:
        with case_timeout(120):
            fresh = new_sd(net)
            fresh.expand_bfs()
            sd = new_sd(net)
            for k, op in enumerate(hist):
                sd, r = apply(sd, op)
                for o, d in structure_check(net, sd, faithful=True):
                    out.append(V(o, case, d))
            if hist and hist[-1][0] == "bfs" and hist[-1][1:] == (None, None, None):
                if r is not True:
                    out.append(V("closing-bfs-incomplete", case, ""))
                if structure(sd) != structure(fresh):
                    out.append(V("continued-diagram-differs-from-fresh", case, ""))
                if not sd.is_isomorphic(fresh):
                    out.append(V("continued-diagram-not-isomorphic", case, ""))
    except CaseTimeout:
        out.append(V("terminates", case, "hang"))
    except Exception as e:
        out.append(V("exception", case, f"{type(e).__name__}: {e}"))
    return out
