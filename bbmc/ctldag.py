"""Synthetic-diagram harness for the end-node logic of succession control (C06).

`successions_to_target(sd, target, expand_diagram=False)` decides which diagram nodes are valid end points ("none of whose
descendants contradicts the target or is a non-goal minimal trap space") purely from the diagram's DAG, node spaces and
flags. The harness feeds it every small DAG shape under *every assignment of node ids* (real diagrams assign ids in
discovery order, so a node can have a successor with a smaller id whenever it is reachable by paths of different length)
and every target over the synthetic variables, and checks that every returned succession ends in a node all of whose
descendants are cold. The diagram object is a real SuccessionDiagram (of a network of identity variables, in which every
subspace is a trap space) whose DAG is replaced by the synthetic one: node i fixes x_j = 1 for itself and all its ancestors."""
from __future__ import annotations

import itertools

import networkx as nx

from . import drv  # noqa: F401  (puts the tree under test first on sys.path)
from .dagdepth import dags


def build_sd(k, es, perm, stub=None):
    from biobalm import SuccessionDiagram
    names = [f"x{j}" for j in range(1, k)]
    sd = SuccessionDiagram.from_rules("\n".join(f"{nm}, {nm}" for nm in names))
    anc = {i: {i} for i in range(k)}
    for (a, b) in sorted(es):  # labels are topological
        anc[b] |= anc[a]
    space = {i: {f"x{j}": 1 for j in anc[i] if j != 0} for i in range(k)}
    g = nx.DiGraph()
    has_child = {a for (a, b) in es}
    for i in range(k):
        g.add_node(perm[i], space=space[i], depth=0, expanded=(i != stub), percolated_network=None, percolated_petri_net=None,
                   percolated_nfvs=None, attractor_candidates=None, attractor_seeds=None, attractor_sets=None, parent_node=None, skipped=None)
    for (a, b) in es:
        g.add_edge(perm[a], perm[b], motif=space[b], all_motifs=[space[b]])
    sd.dag = g
    from biobalm.space_utils import space_unique_key
    sd.node_indices = {space_unique_key(space[i], sd.network): perm[i] for i in range(k)}
    return sd, space


def reference_valid(k, es, space, target, stub):
    children = {i: [b for (a, b) in es if a == i] for i in range(k)}

    def hot(i):
        sp = space[i]
        consistent = all(target[v] == val for v, val in sp.items() if v in target)
        goal = all(sp.get(v) == val for v, val in target.items())
        minimal = not children[i] and i != stub
        return (not consistent) or (minimal and not goal)

    valid = {}
    for i in reversed(range(k)):  # topological labels: children have larger labels
        valid[i] = (not hot(i)) and all(valid[c] for c in children[i])
    return valid


def check_shape(k, es, res):
    """all id assignments (root keeps id 0) x all targets x stub variants; returns first violation text or None"""
    from biobalm.control import successions_to_target
    names = [f"x{j}" for j in range(1, k)]
    leaves = [i for i in range(1, k) if not any(a == i for (a, b) in es)]
    for rest in itertools.permutations(range(1, k)):
        perm = (0,) + rest
        inv = {perm[i]: i for i in range(k)}
        for stub in [None] + leaves[:1]:
            sd, space = build_sd(k, es, perm, stub)
            by_space = {frozenset(space[i].items()): i for i in range(k)}
            for vals in itertools.product([None, 0, 1], repeat=k - 1):
                target = {nm: v for nm, v in zip(names, vals) if v is not None}
                if not target:
                    continue
                res["evals"] += 1
                valid = reference_valid(k, es, space, target, stub)
                got = successions_to_target(sd, dict(target), expand_diagram=False)
                for s in got:
                    end = {}
                    for m in s:
                        end.update(m)
                    i = by_space.get(frozenset(end.items()))
                    if i is None:
                        return f"DAG {list(es)} ids {perm} target {target}: succession {s} does not end in a diagram node"
                    if not valid[i]:
                        return (f"DAG {list(es)} with node ids {perm} (stub {stub}), target {target}: succession {s} ends in node "
                                f"{perm[i]} {space[i]}, which has a descendant that contradicts the target or is a non-goal minimal trap")
    return None


def _new_node(sd, nid, space):
    from biobalm.space_utils import space_unique_key
    sd.dag.add_node(nid, space=space, depth=0, expanded=False, percolated_network=None, percolated_petri_net=None,
                    percolated_nfvs=None, attractor_candidates=None, attractor_seeds=None, attractor_sets=None,
                    parent_node=None, skipped=None)
    sd.node_indices[space_unique_key(space, sd.network)] = nid


def check_growth(k, es, res):
    """the diagram grows between two control queries: a stub P (and everything reachable only through it) is expanded with
    the real _ensure_edge after a first query, then every target is queried again; answers must be sound for the grown diagram
    (derived data cached by the first query must not survive the growth)"""
    from biobalm import SuccessionDiagram
    from biobalm.control import successions_to_target
    names = [f"x{j}" for j in range(1, k)]
    children = {i: [b for (a, b) in es if a == i] for i in range(k)}
    anc = {i: {i} for i in range(k)}
    for (a, b) in sorted(es):
        anc[b] |= anc[a]
    space = {i: {f"x{j}": 1 for j in anc[i] if j != 0} for i in range(k)}
    by_space = {frozenset(space[i].items()): i for i in range(k)}
    for P in range(k):
        if not children[P]:
            continue
        # nodes reachable from the root without using P's out-edges
        R1 = {0}
        todo = [0]
        while todo:
            x = todo.pop()
            if x == P:
                continue
            for c in children[x]:
                if c not in R1:
                    R1.add(c)
                    todo.append(c)
        if P not in R1:
            continue
        R2 = [i for i in range(k) if i not in R1]
        r1 = sorted(R1 - {0})
        for rest in itertools.permutations(range(1, len(R1))):
            ids = {0: 0}
            for node, nid in zip(r1, rest):
                ids[node] = nid
            for j, node in enumerate(R2):
                ids[node] = len(R1) + j
            sd = SuccessionDiagram.from_rules("\n".join(f"{nm}, {nm}" for nm in names))
            sd.dag = nx.DiGraph()
            sd.node_indices = {}
            for node in sorted(R1, key=lambda n: ids[n]):
                _new_node(sd, ids[node], space[node])
            for node in R1:
                if node == P:
                    continue
                sd.dag.nodes[ids[node]]["expanded"] = True
                for c in children[node]:
                    sd._ensure_edge(ids[node], ids[c], space[c])
            # first query (any target): lets the implementation compute and keep whatever it derives from the diagram
            successions_to_target(sd, {names[-1]: 1}, expand_diagram=False)
            # growth: expand P, then everything that became reachable, in topological order, with the real edge code
            for node in [P] + R2:
                for c in children[node]:
                    if ids[c] not in sd.dag.nodes:
                        _new_node(sd, ids[c], space[c])
                    sd._ensure_edge(ids[node], ids[c], space[c])
                sd.dag.nodes[ids[node]]["expanded"] = True
            for vals in itertools.product([None, 0, 1], repeat=k - 1):
                target = {nm: v for nm, v in zip(names, vals) if v is not None}
                if not target:
                    continue
                res["evals"] += 1
                valid = reference_valid(k, es, space, target, None)
                got = successions_to_target(sd, dict(target), expand_diagram=False)
                for s in got:
                    end = {}
                    for m in s:
                        end.update(m)
                    i = by_space.get(frozenset(end.items()))
                    if i is None or not valid[i]:
                        return (f"DAG {list(es)}: node {P} (and what is reachable only through it) expanded after a first control query, node ids "
                                f"{ids}; second query with target {target}: succession {s} ends in a node with a descendant that contradicts "
                                f"the target or is a non-goal minimal trap")
    return None
