"""Synthetic-diagram harness for the end-node logic of succession control (C06).

`successions_to_target(sd, target, expand_diagram=False)` decides which diagram nodes are valid end points ("none of whose
descendants contradicts the target or is a non-goal minimal trap space") purely from the diagram's DAG, node spaces and
flags. The harness feeds it every small DAG shape under *every assignment of node ids* (real diagrams assign ids in
discovery order, so a node can have a successor with a smaller id whenever it is reachable by paths of different length)
and every target over the synthetic variables, and checks that every returned succession ends in a node all of whose
descendants are cold. The diagram object is a real SuccessionDiagram (of a network of identity variables, in which every
subspace is a trap space) whose DAG is replaced by the synthetic one: node i fixes x_j = 1 for itself and all its ancestors."""
from __future__ import annotations

import itertools

import networkx as nx

from . import drv  # noqa: F401  (puts the tree under test first on sys.path)
from .dagdepth import dags


def build_sd(k, es, perm, stub=None):
    from biobalm import SuccessionDiagram
    names = [f"x{j}" for j in range(1, k)]
    sd = SuccessionDiagram.from_rules("\n".join(f"{nm}, {nm}" for nm in names))
    anc = {i: {i} for i in range(k)}
    for (a, b) in sorted(es):  # labels are topological
        anc[b] |= anc[a]
    space = {i: {f"x{j}": 1 for j in anc[i] if j != 0} for i in range(k)}
    g = nx.DiGraph()
    has_child = {a for (a, b) in es}
    for i in range(k):
        g.add_node(perm[i], space=space[i], depth=0, expanded=(i != stub), percolated_network=None, percolated_petri_net=None,
                   percolated_nfvs=None, attractor_candidates=None, attractor_seeds=None, attractor_sets=None, parent_node=None, skipped=None)
    for (a, b) in es:
        g.add_edge(perm[a], perm[b], motif=space[b], all_motifs=[space[b]])
    sd.dag = g
    from biobalm.space_utils import space_unique_key
    sd.node_indices = {space_unique_key(space[i], sd.network): perm[i] for i in range(k)}
    return sd, space


def reference_valid(k, es, space, target, stub):
    children = {i: [b for (a, b) in es if a == i] for i in range(k)}

    def hot(i):
        sp = space[i]
        consistent = all(target[v] == val for v, val in sp.items() if v in target)
        goal = all(sp.get(v) == val for v, val in target.items())
        minimal = not children[i] and i != stub
        return (not consistent) or (minimal and not goal)

    valid = {}
    for i in reversed(range(k)):  # topological labels: children have larger labels
        valid[i] = (not hot(i)) and all(valid[c] for c in children[i])
    return valid


def check_shape(k, es, res):
    """all id assignments (root keeps id 0) x all targets x stub variants; returns first violation text or None"""
    from biobalm.control import successions_to_target
    names = [f"x{j}" for j in range(1, k)]
    leaves = [i for i in range(1, k) if not any(a == i for (a, b) in es)]
    for rest in itertools.permutations(range(1, k)):
        perm = (0,) + rest
        inv = {perm[i]: i for i in range(k)}
        for stub in [None] + leaves[:1]:
            sd, space = build_sd(k, es, perm, stub)
            by_space = {frozenset(space[i].items()): i for i in range(k)}
            for vals in itertools.product([None, 0, 1], repeat=k - 1):
                target = {nm: v for nm, v in zip(names, vals) if v is not None}
                if not target:
                    continue
                res["evals"] += 1
                valid = reference_valid(k, es, space, target, stub)
                got = successions_to_target(sd, dict(target), expand_diagram=False)
                for s in got:
                    end = {}
                    for m in s:
                        end.update(m)
                    i = by_space.get(frozenset(end.items()))
                    if i is None:
                        return f"DAG {list(es)} ids {perm} target {target}: succession {s} does not end in a diagram node"
                    if not valid[i]:
                        return (f"DAG {list(es)} with node ids {perm} (stub {stub}), target {target}: succession {s} ends in node "
                                f"{perm[i]} {space[i]}, which has a descendant that contradicts the target or is a non-goal minimal trap")
    return None
