"""Subprocess entry point for C19: prints, for the interpreter's PYTHONHASHSEED, a digest of the full dump of every
(network, strategy) of a batch plus the iteration order observed for each variable-name set."""
from __future__ import annotations

import hashlib
import json
import sys

from . import universe as U
from .drv import new_sd, apply, vset_states, module_state
from .refmodel import key
from .explorer import targets_of

STRATS = {
    "build": ("build",), "bfs": ("bfs", None, None, None), "dfs": ("dfs", None, None, None), "scc": ("scc", True),
    "block": ("block", True, None, True), "aseeds": ("aseeds", None), "minskip": ("min", None, None, True),
    "aseedsskip": None,   # expand_attractor_seeds(size_limit=14) then skip_remaining: overlapping skip nodes, larger candidate lists (defect D13)
    "succskip": None,  # expand the root, then skip_to_minimal on every stub in id order (new node ids follow the solver's answer order)
}


def full_dump(net, strat, with_control=True):
    from biobalm.control import succession_control
    sd = new_sd(net)
    if strat == "succskip":
        sd.node_successors(0, compute=True)
        ret = [sd.skip_to_minimal(i) for i in list(sd.stub_ids())]
    elif strat == "aseedsskip":
        ret = [sd.expand_attractor_seeds(size_limit=14), sd.skip_remaining()]
    else:
        sd, ret = apply(sd, STRATS[strat])
    out = {"ret": ret, "nodes": [], "edges": [], "seeds": {}, "sets": {}}
    for i in sd.node_ids():
        d = sd.node_data(i)
        out["nodes"].append([i, sorted(d["space"].items()), bool(d["expanded"]), bool(d["skipped"]), d["depth"]])
    for (a, b, d) in sorted(sd.dag.edges(data=True), key=lambda e: (e[0], e[1])):
        out["edges"].append([a, b, sorted(d["motif"].items()), [sorted(m.items()) for m in d["all_motifs"]]])
    for i in sd.expanded_ids():
        out["seeds"][i] = [sorted(s.items()) for s in sd.node_attractor_seeds(i, compute=True)]
        out["sets"][i] = [vset_states(net, v) for v in sd.node_attractor_sets(i, compute=True)]
    out["summary"] = sd.summary()
    if with_control:
        ts = targets_of(net, "nodes")
        mins = [t for t in ts if any(key(t) == key(m) for m in net.min_traps)]
        out["control"] = []
        for t in mins[:2] + ts[-1:]:
            for strategy in ("internal", "all"):
                ivs = succession_control(new_sd(net), dict(t), strategy=strategy, successful_only=False)
                out["control"].append([sorted(t.items()), strategy, [repr(iv) for iv in ivs]])
    out["module_state"] = list(module_state())
    return json.dumps(out, sort_keys=True, default=str)


OVERLAP_MAA = [("u", ("k", "depth_overlap"), ("k", "maa3")), ("u", ("k", "depth_overlap"), ("k", "maa_16555679"))]


def batch(name):
    K = U.kernel()
    if name == "small":
        specs = [("k", k) for k, n in K.items() if n.n <= 4]
        specs += [("idx", 2, i) for i in U.U2c_indices()[::8]]
        specs += [("i3", i) for i in range(0, 1444, 240)]
        specs += [("p4", a, b) for a, b in U.P4_pairs(True)[::1500]]
        return specs
    if name == "big":
        return [("k", k) for k, n in K.items() if n.n > 4] + OVERLAP_MAA
    raise ValueError(name)


def main():
    name = sys.argv[1]
    strats = sys.argv[2].split(",")
    out = {"dumps": {}, "orders": {}}
    if name.startswith("one:"):        # a single network in a process of its own
        specs = [json.loads(name[4:])]
    elif name.endswith(":rev"):        # the batch in reverse order
        specs = list(reversed(batch(name[:-4])))
    else:
        specs = batch(name)
    for spec in specs:
        net = U.resolve(spec)
        if net.n <= 4:
            out["orders"][",".join(sorted(net.names))] = list(set(net.names))
        for st in strats:
            try:
                d = full_dump(net, st)
            except Exception as e:  # a result that depends on the process history may also be an exception
                d = f"EXC {type(e).__name__}: {e}"
            out["dumps"][json.dumps([list(spec), st])] = hashlib.sha1(d.encode()).hexdigest()
    print("ENVDUMP " + json.dumps(out))


if __name__ == "__main__":
    main()
