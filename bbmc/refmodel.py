"""Explicit-state reference model of asynchronous Boolean-network dynamics.

Independent of clingo, Petri nets, BDDs and AEON: a network is a tuple of truth tables, a state is an n-bit integer
(bit i = variable i), a set of states is an integer bitmask over the 2^n states, a space is a dict name -> 0/1.
Everything is computed by explicit enumeration; n <= 6 in every universe.
"""
from __future__ import annotations

import itertools
from functools import cached_property


def key(sp):
    return tuple(sorted(sp.items()))


def sub(x, y):
    """space x is a subspace of space y"""
    for k, v in y.items():
        if x.get(k, None) != v:
            return False
    return True


def consistent(a, b):
    return all(b[k] == v for k, v in a.items() if k in b)


def bits(mask):
    s = 0
    while mask:
        if mask & 1:
            yield s
        mask >>= 1
        s += 1


class Net:
    def __init__(self, names, tables, inputs=()):
        self.names = list(names)
        self.n = len(self.names)
        self.N = 1 << self.n
        self.FULL = (1 << self.N) - 1
        # tables[i]: int bitmask over states, bit s = f_i(s)
        self.tables = tuple(self._as_mask(t) for t in tables)
        self.inputs = frozenset(inputs)  # indices written without an update function (free inputs)
        self.idx = {nm: i for i, nm in enumerate(self.names)}

    def _as_mask(self, t):
        if isinstance(t, int):
            return t
        m = 0
        for s, b in enumerate(t):
            if b:
                m |= 1 << s
        return m

    def ident(self):
        return (tuple(self.names), self.tables, tuple(sorted(self.inputs)))

    # ---- basic dynamics -------------------------------------------------
    def f(self, i, s):
        return (self.tables[i] >> s) & 1

    @cached_property
    def VARMASK(self):
        """VARMASK[i] = mask of states with bit i set"""
        out = []
        for i in range(self.n):
            m = 0
            for s in range(self.N):
                if (s >> i) & 1:
                    m |= 1 << s
            out.append(m)
        return out

    @cached_property
    def succ(self):
        """succ[s] = bitmask of asynchronous successors of s"""
        out = []
        for s in range(self.N):
            m = 0
            for i in range(self.n):
                if self.f(i, s) != ((s >> i) & 1):
                    m |= 1 << (s ^ (1 << i))
            out.append(m)
        return out

    @cached_property
    def pred(self):
        out = [0] * self.N
        for s in range(self.N):
            for t in bits(self.succ[s]):
                out[t] |= 1 << s
        return out

    def post(self, mask):
        r = 0
        for s in bits(mask):
            r |= self.succ[s]
        return r

    def fwd(self, mask):
        """forward closure"""
        while True:
            nm = mask | self.post(mask)
            if nm == mask:
                return mask
            mask = nm

    def bwd(self, mask):
        while True:
            nm = mask
            for s in bits(mask):
                nm |= self.pred[s]
            if nm == mask:
                return mask
            mask = nm

    # ---- states / spaces ---------------------------------------------------
    def state_of(self, d):
        s = 0
        for nm, v in d.items():
            if v:
                s |= 1 << self.idx[nm]
        return s

    def dict_of(self, s):
        return {nm: (s >> i) & 1 for i, nm in enumerate(self.names)}

    def mask_of(self, sp):
        m = self.FULL
        for nm, v in sp.items():
            vm = self.VARMASK[self.idx[nm]]
            m &= vm if v else (self.FULL & ~vm)
        return m

    @cached_property
    def spaces(self):
        """all 3^n spaces as (dict, mask), larger spaces (fewer fixed variables) not necessarily first"""
        out = []
        for vals in itertools.product([None, 0, 1], repeat=self.n):
            sp = {self.names[i]: v for i, v in enumerate(vals) if v is not None}
            out.append((sp, self.mask_of(sp)))
        return out

    def is_closed(self, mask, reverse=False):
        if not reverse:
            return (self.post(mask) & ~mask) == 0
        r = 0
        for s in bits(mask):
            r |= self.pred[s]
        return (r & ~mask) == 0

    def is_trap(self, sp):
        return self.is_closed(self.mask_of(sp))

    @cached_property
    def trap_spaces(self):
        return [sp for sp, m in self.spaces if self.is_closed(m)]

    @cached_property
    def rev_trap_spaces(self):
        return [sp for sp, m in self.spaces if self.is_closed(m, reverse=True)]

    @cached_property
    def min_traps(self):
        T = self.trap_spaces
        return [t for t in T if not any(u is not t and sub(u, t) for u in T)]

    def min_traps_in(self, sp):
        return [m for m in self.min_traps if sub(m, sp)]

    # ---- attractors --------------------------------------------------------
    @cached_property
    def attractors(self):
        """terminal SCCs as bitmasks (closure-based: A = fwd(s) with fwd(t)=A for all t in A)"""
        reach = [self.fwd(1 << s) for s in range(self.N)]
        seen = set()
        out = []
        for s in range(self.N):
            r = reach[s]
            if r in seen:
                continue
            if all(reach[t] == r for t in bits(r)):
                seen.add(r)
                out.append(r)
        return out

    @cached_property
    def attractors_tarjan(self):
        """second, independent implementation (Tarjan) used by the oracle self-check"""
        import sys
        sys.setrecursionlimit(10000)
        idx, low, st, on, comps = {}, {}, [], set(), []
        c = [0]

        def sc(v):
            idx[v] = low[v] = c[0]
            c[0] += 1
            st.append(v)
            on.add(v)
            for w in bits(self.succ[v]):
                if w not in idx:
                    sc(w)
                    low[v] = min(low[v], low[w])
                elif w in on:
                    low[v] = min(low[v], idx[w])
            if low[v] == idx[v]:
                C = 0
                while True:
                    w = st.pop()
                    on.discard(w)
                    C |= 1 << w
                    if w == v:
                        break
                comps.append(C)

        for v in range(self.N):
            if v not in idx:
                sc(v)
        return [C for C in comps if (self.post(C) & ~C) == 0]

    def attractor_of(self, s):
        for a in self.attractors:
            if (a >> s) & 1:
                return a
        return None

    def attractors_in(self, mask):
        return [a for a in self.attractors if (a & ~mask) == 0]

    @cached_property
    def maa(self):
        """attractors outside every minimal trap space"""
        mm = [self.mask_of(m) for m in self.min_traps]
        return [a for a in self.attractors if not any((a & ~m) == 0 for m in mm)]

    # ---- percolation -------------------------------------------------------
    def const_on(self, i, mask):
        """value of f_i if constant on the (non-empty) state set, else None"""
        t = self.tables[i]
        if (t & mask) == mask:
            return 1
        if (t & mask) == 0:
            return 0
        return None

    def percolate(self, sp):
        sp = dict(sp)
        while True:
            m = self.mask_of(sp)
            ch = False
            for i, nm in enumerate(self.names):
                if nm in sp:
                    continue
                c = self.const_on(i, m)
                if c is not None:
                    sp[nm] = c
                    ch = True
                    break
            if not ch:
                return sp

    def is_const_fn(self, i):
        return self.tables[i] == 0 or self.tables[i] == self.FULL

    def percolate_strict(self, sp):
        """reference reading of percolate_space_strict: closure from the given values alone over variables with
        non-constant update function; report v=c iff f_v is determined c on the closure and v is not given with the
        other value"""
        # a free input has no update function: nothing is ever derived for it (its value is only ever given)
        cl = dict(sp)
        ch = True
        while ch:
            ch = False
            for i, nm in enumerate(self.names):
                if self.is_const_fn(i) or nm in cl or i in self.inputs:
                    continue
                c = self.const_on(i, self.mask_of(cl))
                if c is not None:
                    cl[nm] = c
                    ch = True
        out = {}
        m = self.mask_of(cl)
        for i, nm in enumerate(self.names):
            if self.is_const_fn(i) or i in self.inputs:
                continue
            c = self.const_on(i, m)
            if c is not None and (nm not in sp or sp[nm] == c):
                out[nm] = c
        return out

    # ---- sources / structure ---------------------------------------------
    @cached_property
    def sources(self):
        """variables whose update function is the identity (incl. free inputs)"""
        return [nm for i, nm in enumerate(self.names) if self.tables[i] == self.VARMASK[i]]

    def depends(self, i, j):
        """f_i depends on variable j"""
        t = self.tables[i]
        vm = self.VARMASK[j]
        lo = t & ~vm & self.FULL  # values at states with bit j = 0
        hi = (t & vm) >> (1 << j)
        return lo != hi

    # ---- reference succession diagram --------------------------------------
    def max_traps_in(self, x, root=False):
        T = self.trap_spaces
        inside = [t for t in T if sub(t, x) and len(t) > len(x)]
        if root:
            src = self.sources
            inside = [t for t in inside if all(s in t for s in src)]
        return [t for t in inside if not any(u is not t and sub(t, u) for u in inside)]

    @cached_property
    def sd(self):
        """(nodes: key -> space, edges: (kp, kc) -> [motifs], rootkey)"""
        root = self.percolate({})
        nodes = {key(root): root}
        edges = {}
        todo = [root]
        while todo:
            x = todo.pop()
            kx = key(x)
            for m in self.max_traps_in(x, root=(kx == key(root))):
                c = self.percolate(m)
                kc = key(c)
                if kc not in nodes:
                    nodes[kc] = c
                    todo.append(c)
                edges.setdefault((kx, kc), []).append(m)
        return nodes, edges, key(root)

    def sd_children(self, k):
        nodes, edges, _ = self.sd
        return {b for (a, b) in edges if a == k}

    # ---- text ----------------------------------------------------------------
    def expr(self, i, style="dnf"):
        t = self.tables[i]
        if t == self.FULL:
            return "true"
        if t == 0:
            return "false"
        # minimal-support DNF: enumerate over support variables only
        sup = [j for j in range(self.n) if self.depends(i, j)]
        terms = []
        for vals in itertools.product([0, 1], repeat=len(sup)):
            s = 0
            for j, v in zip(sup, vals):
                if v:
                    s |= 1 << j
            if self.f(i, s):
                lits = [(self.names[j] if v else "!" + self.names[j]) for j, v in zip(sup, vals)]
                terms.append("(" + " & ".join(lits) + ")")
        return " | ".join(terms)

    def bnet(self):
        return "\n".join(f"{nm}, {self.expr(i)}" for i, nm in enumerate(self.names))

    def aeon(self):
        """aeon text; free inputs are written without an update function"""
        lines = []
        for i, nm in enumerate(self.names):
            for j in range(self.n):
                if self.depends(i, j):
                    lines.append(f"{self.names[j]} -? {nm}")
        for i, nm in enumerate(self.names):
            if i in self.inputs:
                continue
            lines.append(f"${nm}: {self.expr(i)}")
        return "\n".join(lines)

    # ---- transformations -------------------------------------------------
    def override(self, D):
        tabs = list(self.tables)
        for nm, v in D.items():
            tabs[self.idx[nm]] = self.FULL if v else 0
        return Net(self.names, tabs)

    def __repr__(self):
        return "Net(" + " ; ".join(f"{nm}={self.expr(i)}" for i, nm in enumerate(self.names)) + ")"


def net_from_index(n, idx, names=None):
    """n-variable network number idx: table of variable i = bits [i*2^n, (i+1)*2^n) of idx"""
    names = names or [chr(65 + i) for i in range(n)]
    m = 1 << n
    tabs = []
    for _ in range(n):
        tabs.append(idx & ((1 << m) - 1))
        idx >>= m
    return Net(names, tabs)


def index_of(net):
    idx = 0
    for i, t in enumerate(net.tables):
        idx |= t << (i * net.N)
    return idx


def union(n1, n2, names2=None):
    """disjoint union; n2's variables are renamed if they clash"""
    if names2 is None:
        names2 = [nm if nm not in n1.names else nm + "2" for nm in n2.names]
        names2 = [nm.lower() + "_" if nm in n1.names else nm for nm in names2]
    names = n1.names + list(names2)
    n = len(names)
    N = 1 << n
    tabs = []
    lowmask = (1 << n1.n) - 1
    for i in range(n1.n):
        t = 0
        for s in range(N):
            if n1.f(i, s & lowmask):
                t |= 1 << s
        tabs.append(t)
    for i in range(n2.n):
        t = 0
        for s in range(N):
            if n2.f(i, s >> n1.n):
                t |= 1 << s
        tabs.append(t)
    return Net(names, tabs, inputs=set(n1.inputs) | {n1.n + i for i in n2.inputs})


def net_from_functions(names, fns):
    """fns[i]: python callable taking a dict name->0/1 and returning truthy"""
    n = len(names)
    tabs = []
    for i in range(n):
        t = 0
        for s in range(1 << n):
            d = {nm: (s >> j) & 1 for j, nm in enumerate(names)}
            if fns[i](d):
                t |= 1 << s
        tabs.append(t)
    return Net(names, tabs)


def net_from_bn(bn):
    """truth tables of an AEON BooleanNetwork (used only to import named kernel / corpus networks)"""
    from biodivine_aeon import AsynchronousGraph
    bn = bn.infer_valid_graph()
    names = bn.variable_names()
    n = len(names)
    g = AsynchronousGraph(bn)
    tabs = []
    inputs = set()
    for i, v in enumerate(bn.variables()):
        if bn.get_update_function(v) is None:
            inputs.add(i)
            t = 0
            for s in range(1 << n):
                if (s >> i) & 1:
                    t |= 1 << s
            tabs.append(t)
            continue
        fb = g.mk_update_function(v)
        t = 0
        for s in range(1 << n):
            val = {names[j]: bool((s >> j) & 1) for j in range(n)}
            if fb.r_restrict(val).is_true():
                t |= 1 << s
        tabs.append(t)
    return Net(names, tabs, inputs)


def net_from_bnet(text):
    from biodivine_aeon import BooleanNetwork
    return net_from_bn(BooleanNetwork.from_bnet(text))
