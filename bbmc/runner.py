"""Shared runner: plans a check, executes its work units on a supervised process pool, confirms violations by
re-execution in a fresh interpreter, matches known findings, writes evidence, prints VIOLATION / KNOWN-FINDING lines.

exit 0: property held on everything explored (possibly KNOWN-FINDING lines)
exit 1: at least one confirmed violation (VIOLATION property=<id> replay=<path>)
exit 3: harness error (never accompanied by a VIOLATION line)
"""
from __future__ import annotations

import collections
import hashlib
import importlib
import json
import multiprocessing as mp
import multiprocessing.connection
import os
import signal
import subprocess
import sys
import time
import traceback

ROOT = os.path.dirname(os.path.dirname(os.path.abspath(__file__)))
# VERIF_OUT redirects everything a run writes (used when the checks are pointed at a scratch tree with VERIF_REPO, so
# that such runs never touch the evidence of /repo)
OUT = os.environ.get("VERIF_OUT") or ROOT
EVIDENCE_DIR = os.path.join(OUT, "evidence")
REPLAY_DIR = os.path.join(OUT, "replays")
LOG_DIR = os.path.join(OUT, "logs")
KNOWN = os.path.join(ROOT, "known_findings.json")
PY = "/venv/bin/python"


class CaseTimeout(Exception):
    pass


class case_timeout:
    """soft per-case timeout inside a worker (interrupts Python-level loops; native hangs are handled by the supervisor).
    AEON's native code notices the pending exception and reports it as KeyboardInterrupt('Operation cancelled'); that is
    converted back into CaseTimeout here."""

    def __init__(self, sec):
        self.sec = sec
        self.fired = False

    def _alarm(self, signum, frame):
        self.fired = True
        raise CaseTimeout()

    def __enter__(self):
        self.fired = False
        signal.signal(signal.SIGALRM, self._alarm)
        signal.setitimer(signal.ITIMER_REAL, self.sec)
        return self

    def __exit__(self, exc_type, exc, tb):
        signal.setitimer(signal.ITIMER_REAL, 0)
        if exc_type is KeyboardInterrupt and self.fired:
            raise CaseTimeout() from exc
        return False


# ---------------------------------------------------------------------------
# supervised pool
# ---------------------------------------------------------------------------
def _worker(modname, conn, logpath):
    try:
        fd = os.open(logpath, os.O_WRONLY | os.O_CREAT | os.O_APPEND, 0o644)
        os.dup2(fd, 2)
    except Exception:
        pass
    mod = importlib.import_module(modname)
    cov = _LineCov()
    cov.install()
    while True:
        try:
            msg = conn.recv()
        except EOFError:
            return
        if msg is None:
            return
        i, unit = msg
        try:
            t0 = time.time()
            res = mod.run_unit(unit)
            res.setdefault("counters", {})
            if isinstance(unit, tuple) and unit and isinstance(unit[0], str):
                res["counters"]["cpu_s:" + unit[0]] = res["counters"].get("cpu_s:" + unit[0], 0) + round(time.time() - t0, 2)
            res["_lines"] = cov.drain()
            conn.send((i, "ok", res))
        except BaseException as e:  # noqa
            conn.send((i, "err", f"{type(e).__name__}: {e}\n{traceback.format_exc()[-3000:]}"))


class _LineCov:
    """which lines of the biobalm package a worker has executed (sys.monitoring LINE events, each location reports once)"""

    TOOL = 4

    def __init__(self):
        self.new = set()
        self.root = None

    def install(self):
        if os.environ.get("VERIF_NO_LINECOV"):
            return
        try:
            import biobalm
            mon = sys.monitoring
            self.root = os.path.dirname(os.path.abspath(biobalm.__file__)) + os.sep
            mon.use_tool_id(self.TOOL, "bbmc-linecov")
            mon.register_callback(self.TOOL, mon.events.LINE, self._cb)
            mon.set_events(self.TOOL, mon.events.LINE)
        except Exception:
            self.root = None

    def _cb(self, code, line):
        fn = code.co_filename
        if self.root and fn.startswith(self.root):
            self.new.add((fn[len(self.root):], line))
        return sys.monitoring.DISABLE

    def drain(self):
        out, self.new = self.new, set()
        return out


def anchor_coverage(pid, lines):
    """for every 'file:from-to' range named in the property's anchors: how many lines of that range were executed"""
    import re
    out = {}
    try:
        props = [json.loads(l) for l in open(os.path.join(ROOT, "properties.jsonl"))]
        prop = next(p for p in props if p["id"] == pid)
    except Exception:
        return out
    byfile = collections.defaultdict(set)
    for f, ln in lines:
        byfile[f].add(ln)
    for m in prop["anchors"].get("mechanism", []):
        for f, a, b in re.findall(r"biobalm/([\w/]+\.py):(\d+)(?:-(\d+))?", m.get("where", "")):
            a = int(a)
            b = int(b) if b else a
            # line numbers refer to the pinned tree; fix commits shifted some code by a few lines
            hit = len([x for x in byfile.get(f, ()) if a - 5 <= x <= b + 40])
            out[f"{f}:{a}-{b}"] = hit
    return out


class Pool:
    def __init__(self, modname, jobs, unit_timeout, logpath):
        self.modname, self.jobs, self.unit_timeout, self.logpath = modname, jobs, unit_timeout, logpath
        self.ctx = mp.get_context("fork")
        self.workers = []

    def _spawn(self):
        a, b = self.ctx.Pipe()
        p = self.ctx.Process(target=_worker, args=(self.modname, b, self.logpath), daemon=True)
        p.start()
        b.close()
        return {"p": p, "c": a, "task": None, "t0": 0.0}

    def run(self, units, on_result, deadline=None):
        """on_result(i, status, payload), status in ok / err / hang. After `deadline` (wall clock) no further unit is
        started; the units already running are completed and self.not_started lists the ones never started."""
        pending = collections.deque(enumerate(units))
        self.workers = [self._spawn() for _ in range(min(self.jobs, max(1, len(units))))]
        self.not_started = []
        done = 0
        total = len(units)
        while done < total:
            if deadline is not None and pending and time.time() > deadline:
                self.not_started = [i for i, _ in pending]
                total -= len(pending)
                pending.clear()
                continue
            for w in self.workers:
                if w["task"] is None and pending:
                    i, u = pending.popleft()
                    w["task"] = i
                    w["t0"] = time.time()
                    w["c"].send((i, u))
            busy = [w for w in self.workers if w["task"] is not None]
            ready = mp.connection.wait([w["c"] for w in busy], timeout=1.0)
            now = time.time()
            for w in busy:
                if w["c"] in ready:
                    try:
                        i, st, payload = w["c"].recv()
                    except (EOFError, OSError):
                        i, st, payload = w["task"], "err", "worker died"
                        self._replace(w)
                    on_result(i, st, payload)
                    done += 1
                    w["task"] = None
                elif now - w["t0"] > self.unit_timeout:
                    i = w["task"]
                    self._replace(w)
                    on_result(i, "hang", f"unit exceeded {self.unit_timeout}s; worker killed")
                    done += 1
        for w in self.workers:
            try:
                w["c"].send(None)
            except Exception:
                pass
        for w in self.workers:
            w["p"].join(timeout=2)
            if w["p"].is_alive():
                w["p"].kill()

    def _replace(self, w):
        try:
            w["p"].kill()
            w["p"].join(timeout=5)
        except Exception:
            pass
        nw = self._spawn()
        w.update(nw)


# ---------------------------------------------------------------------------
# known findings
# ---------------------------------------------------------------------------
def load_known():
    if not os.path.exists(KNOWN):
        return []
    with open(KNOWN) as f:
        return json.load(f)["findings"]


def matches(entry, pid, v):
    if entry.get("status") != "open" or entry.get("property") != pid:
        return False
    if entry.get("oracle") != v["oracle"]:
        return False
    m = entry.get("match", {})
    for k, val in m.items():
        if k == "site":
            if v.get("site") != val:
                return False
        elif k == "case":
            if jcanon(v.get("case")) != jcanon(val):
                return False
        elif k == "case_subset":
            c = v.get("case") or {}
            for kk, vv in val.items():
                if jcanon(c.get(kk)) != jcanon(vv):
                    return False
        else:
            return False
    return True


def jcanon(x):
    return json.dumps(x, sort_keys=True, default=str)


# ---------------------------------------------------------------------------
# main
# ---------------------------------------------------------------------------
def case_size(v):
    return (len(jcanon(v.get("case"))), jcanon(v.get("case")))


def write_replay(pid, v, unit=None):
    d = os.path.join(REPLAY_DIR, pid)
    os.makedirs(d, exist_ok=True)
    body = {"property": pid, "oracle": v["oracle"], "site": v.get("site"), "case": v["case"], "detail": v.get("detail"),
            "unit": unit}
    h = hashlib.sha1(jcanon({"o": v["oracle"], "c": v["case"]}).encode()).hexdigest()[:16]
    path = os.path.join(d, h + ".json")
    with open(path, "w") as f:
        json.dump(body, f, indent=1, default=str)
    return path


def do_replay(mod, path):
    """re-execute one case on the current tree; exit 1 and print the violation if it reproduces"""
    with open(path) as f:
        body = json.load(f)
    vs = mod.replay(body["case"])
    hit = [v for v in vs if v["oracle"] == body["oracle"]]
    if hit:
        print(f"VIOLATION property={mod.ID} replay={path}")
        print("  oracle:", body["oracle"])
        print("  detail:", str(hit[0].get("detail"))[:2000])
        return 1
    # history-dependent violations (state leaking between calls) only reproduce inside the call sequence of their work
    # unit: re-run the whole unit in this fresh interpreter and look for the same (oracle, case)
    unit = body.get("unit")
    if unit is not None:
        res = mod.run_unit(_tuplify(unit))
        same = [v for v in res.get("violations", []) if v["oracle"] == body["oracle"]]
        exact = [v for v in same if jcanon(v["case"]) == jcanon(body["case"])]
        # the same oracle firing on another case of the same unit, in a fresh interpreter, is as real a violation: which case
        # fails first depends on what the worker had run before (state leaking between networks)
        for v in (exact or same)[:1]:
            print(f"VIOLATION property={mod.ID} replay={path}")
            print("  oracle:", body["oracle"], "(reproduces only within the call sequence of its work unit: state leaks between calls)"
                  + ("" if exact else f" [on case {jcanon(v['case'])[:300]} of the same unit]"))
            print("  detail:", str(v.get("detail"))[:2000])
            return 1
    print(f"replay {path}: oracle {body['oracle']} did not fire ({len(vs)} other findings)")
    return 0


def _tuplify(x):
    if isinstance(x, list):
        return tuple(_tuplify(y) for y in x)
    return x


def emit_test(mod, path):
    out = path[:-5] + "_test.py"
    with open(out, "w") as f:
        f.write(
            "# plain pytest reproduction of a bbmc violation (no explorer involved)\n"
            "import json, sys\nsys.path.insert(0, %r)\n"
            "def test_replay():\n"
            "    import importlib\n"
            "    mod = importlib.import_module(%r)\n"
            "    body = json.load(open(%r))\n"
            "    vs = [v for v in mod.replay(body['case']) if v['oracle'] == body['oracle']]\n"
            "    assert not vs, vs[0]\n" % (ROOT, mod.__name__, os.path.abspath(path)))
    print("wrote", out)


def main(argv=None):
    argv = list(sys.argv[1:] if argv is None else argv)
    if os.environ.get("PYTHONHASHSEED") != "0" and "--keep-hashseed" not in argv:
        env = dict(os.environ, PYTHONHASHSEED="0")
        os.execve(PY, [PY, "-m", "bbmc.runner"] + argv, env)
    pid = argv[0]
    tier = os.environ.get("VERIF_TIER") or "quick"
    jobs = int(os.environ.get("VERIF_JOBS", "16"))
    replay_path = None
    emit = False
    i = 1
    while i < len(argv):
        a = argv[i]
        if a == "--tier":
            if not os.environ.get("VERIF_TIER"):
                tier = argv[i + 1]
            i += 2
        elif a == "--jobs":
            jobs = int(argv[i + 1])
            i += 2
        elif a == "--replay":
            replay_path = argv[i + 1]
            i += 2
        elif a == "--emit-test":
            emit = True
            i += 1
        else:
            i += 1
    seed = int(os.environ.get("VERIF_SEED", "0") or 0)
    modname = f"bbmc.checks.{pid.lower()}"
    os.makedirs(LOG_DIR, exist_ok=True)
    logpath = os.path.join(LOG_DIR, f"{pid}.stderr")
    if replay_path:
        fd = os.open(logpath, os.O_WRONLY | os.O_CREAT | os.O_APPEND, 0o644)
        os.dup2(fd, 2)
        mod = importlib.import_module(modname)
        if emit:
            emit_test(mod, replay_path)
        sys.exit(do_replay(mod, replay_path))
    try:
        open(logpath, "w").close()
        mod = importlib.import_module(modname)
        rc = run_check(mod, tier, seed, jobs, logpath)
    except SystemExit:
        raise
    except BaseException:
        traceback.print_exc()
        print(f"HARNESS-ERROR property={pid}")
        sys.exit(3)
    sys.exit(rc)


def run_check(mod, tier, seed, jobs, logpath):
    pid = mod.ID
    t0 = time.time()
    plan = mod.plan(tier, seed)
    units = plan["units"]
    agg = {
        "evals": 0, "states": 0, "transitions": 0, "traces": 0,
        "nontrivial": set(), "outcomes": set(), "samples": [], "hangs": [], "errors": [],
        "violations": [], "counters": collections.Counter(), "caps": [], "lines": set(),
    }

    def on_result(i, st, payload):
        if st == "ok":
            r = payload
            agg["lines"].update(r.get("_lines", ()))
            agg["evals"] += r.get("evals", 0)
            agg["states"] += r.get("states", 0)
            agg["transitions"] += r.get("transitions", 0)
            agg["traces"] += r.get("traces", 0)
            agg["nontrivial"].update(r.get("nontrivial", ()))
            agg["outcomes"].update(r.get("outcomes", ()))
            if len(agg["samples"]) < 6:
                agg["samples"] += list(r.get("samples", []))[:2]
            agg["hangs"] += r.get("hangs", [])
            for v in r.get("violations", []):
                v["_unit"] = i
                agg["violations"].append(v)
            for ck, cv in r.get("counters", {}).items():
                if ck.startswith("max_"):
                    agg["counters"][ck] = max(agg["counters"].get(ck, 0), cv)
                else:
                    agg["counters"][ck] += cv
            agg["caps"] += r.get("caps", [])
        elif st == "hang":
            agg["hangs"].append({"unit": repr(units[i])[:300], "why": payload})
        else:
            agg["errors"].append({"unit": repr(units[i])[:300], "error": payload})

    pool = Pool(mod.__name__, jobs, plan.get("unit_timeout", 600), logpath)
    # the thorough tier walks its plan in plan order within a wall-clock budget (VERIF_THOROUGH_BUDGET_S, 0 = no budget);
    # units that were never started are reported as a cap in the evidence, never as a pass
    budget = float(os.environ.get("VERIF_THOROUGH_BUDGET_S", "420") or 0) if tier == "thorough" else 0
    pool.run(units, on_result, deadline=(t0 + budget) if budget > 0 else None)
    if pool.not_started:
        agg["caps"].append({"cap": "wall_budget", "budget_s": budget, "units_not_started": len(pool.not_started), "units_planned": len(units),
                            "first_not_started": repr(units[pool.not_started[0]])[:200]})
        agg["counters"]["units_not_started_wall_budget"] = len(pool.not_started)
        print(f"[{pid}] wall budget of {budget:.0f}s reached: {len(pool.not_started)} of {len(units)} planned units not started (reported as a cap)")

    if hasattr(mod, "finalize"):
        agg["violations"] += mod.finalize(agg, plan)

    if agg["errors"]:
        for e in agg["errors"][:3]:
            print("HARNESS-ERROR in unit", e["unit"], "\n", e["error"], file=sys.stdout)
        print(f"HARNESS-ERROR property={pid} units_failed={len(agg['errors'])}")
        return 3

    # hangs: a violation only for the termination property; elsewhere inconclusive
    hang_is_violation = getattr(mod, "HANG_IS_VIOLATION", False)
    if hang_is_violation:
        for h in agg["hangs"]:
            if "case" in h:
                agg["violations"].append({"oracle": "terminates", "case": h["case"], "detail": h.get("why", "hang"),
                                          "site": h.get("site")})

    known = load_known()
    kf_lines = {}
    unmatched = []
    for v in agg["violations"]:
        ent = next((e for e in known if matches(e, pid, v)), None)
        if ent is not None:
            kf_lines[ent["id"]] = f"KNOWN-FINDING: property={pid} {ent['what']}"
        else:
            unmatched.append(v)
    for line in kf_lines.values():
        print(line)

    groups = {}
    for v in unmatched:
        g = (v["oracle"], v.get("site"))
        if g not in groups or case_size(v) < case_size(groups[g]):
            groups[g] = v
    # further candidates per group, from other work units: a violation caused by state that leaked in from an earlier unit of
    # the same worker does not reproduce from its own unit alone, while the same oracle firing in a self-contained unit does
    alternates = {}
    per_unit = collections.Counter()
    for v in unmatched:
        g = (v["oracle"], v.get("site"))
        alternates.setdefault(g, {})
        u = v.get("_unit")
        per_unit[(g, u)] += 1
        if u not in alternates[g] or case_size(v) < case_size(alternates[g][u]):
            alternates[g][u] = v
    confirmed = []
    diverged = []
    for g, v in sorted(groups.items(), key=lambda kv: case_size(kv[1]))[:8]:
        # the smallest case first, then the smallest case of each of the three units in which this oracle fired most often
        busiest = sorted(alternates[g], key=lambda u: -per_unit[(g, u)])[:3]
        cands = [v] + [alternates[g][u] for u in busiest if alternates[g][u] is not v]
        last = None
        for w in cands:
            path = write_replay(pid, w, units[w["_unit"]] if "_unit" in w else None)
            env = dict(os.environ, PYTHONHASHSEED="0")
            p = subprocess.run([PY, "-m", "bbmc.runner", pid, "--replay", path], cwd=ROOT, env=env,
                               capture_output=True, text=True, timeout=900)
            if p.returncode == 1:
                confirmed.append((w, path))
                last = None
                break
            last = (w, path, p.stdout[-500:] + p.stderr[-500:])
        if last is not None:
            diverged.append(last)

    wall = time.time() - t0
    exhaustive = not agg["caps"] and not agg["hangs"]
    cov = {
        "states": agg["states"],
        "transitions": agg["transitions"],
        "traces_validated_against_impl": agg["traces"],
        "evaluations": agg["evals"],
        "distinct_nontrivial": len(agg["nontrivial"]),
        "rule": plan.get("rule", ""),
        "samples": agg["samples"] or [repr(u)[:200] for u in units[:2]],
        "exhaustive": exhaustive,
        "universes": plan.get("universes", {}),
        "bounds": plan.get("bounds", {}),
        "distinct_outcomes": len(agg["outcomes"]),
        "outcome_examples": sorted(map(str, agg["outcomes"]))[:12],
        "counters": dict(agg["counters"]),
        "inconclusive_hang": agg["hangs"][:20],
        "inconclusive_hang_count": len(agg["hangs"]),
        "known_findings_matched": sorted(kf_lines),
        "caps_hit": agg["caps"][:20],
        "violations_by_oracle": {f"{o}|{s}": 1 for (o, s) in groups},
        "units": len(units),
        "biobalm_lines_executed": len(agg["lines"]),
        "anchored_mechanism_lines_executed": anchor_coverage(pid, agg["lines"]),
    }
    ev = {
        "property_id": pid, "tier": tier, "seed": seed, "level": mod.LEVEL, "coverage": cov,
        "assumptions": plan.get("assumptions", []), "wall_s": round(wall, 2),
        "violations": len(confirmed),
    }
    os.makedirs(EVIDENCE_DIR, exist_ok=True)
    evpath = os.path.join(EVIDENCE_DIR, f"{pid}.json")
    with open(evpath, "w") as f:
        json.dump(ev, f, indent=1, default=str)
    validate_evidence(evpath)

    print(f"[{pid}] tier={tier} seed={seed} units={len(units)} evals={agg['evals']} states={agg['states']} "
          f"transitions={agg['transitions']} nontrivial={len(agg['nontrivial'])} outcomes={len(agg['outcomes'])} "
          f"hangs={len(agg['hangs'])} violations={len(agg['violations'])} wall={wall:.1f}s")
    if agg["counters"]:
        print(f"[{pid}] counters:", dict(sorted(agg["counters"].items())))
    unreached = [k for k, v in cov["anchored_mechanism_lines_executed"].items() if v == 0]
    print(f"[{pid}] anchored mechanism ranges reached: {len(cov['anchored_mechanism_lines_executed']) - len(unreached)}/"
          f"{len(cov['anchored_mechanism_lines_executed'])}" + (f"; not reached: {unreached}" if unreached else ""))
    if diverged:
        for v, path, out in diverged:
            print(f"HARNESS-ERROR property={pid} unconfirmed oracle={v['oracle']} replayfile={path}\n{out}")
        if not confirmed:
            return 3
    if confirmed:
        for v, path in confirmed:
            print(f"VIOLATION property={pid} replay={path}")
            print(f"  oracle={v['oracle']} site={v.get('site')} detail={str(v.get('detail'))[:600]}")
        return 1
    if getattr(mod, "MIN_EVALS", 1) > agg["evals"]:
        print(f"HARNESS-ERROR property={pid} vacuous run: evals={agg['evals']}")
        return 3
    return 0


def validate_evidence(path):
    schema = "/root/.vp/EVIDENCE.schema.json"
    if not os.path.exists(schema) or not os.path.exists("/opt/veriftools/pyvenv/bin/python"):
        return
    code = ("import json,sys,jsonschema;jsonschema.validate(json.load(open(sys.argv[1])),json.load(open(sys.argv[2])))")
    p = subprocess.run(["/opt/veriftools/pyvenv/bin/python", "-c", code, path, schema], capture_output=True, text=True)
    if p.returncode != 0:
        raise RuntimeError("evidence does not validate: " + p.stderr[-800:])


if __name__ == "__main__":
    main()
