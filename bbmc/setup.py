"""bin/setup: catalogues + oracle self-check (reference attractors: closure vs Tarjan vs AEON on U1 and U2)"""
import sys, time
from . import universe as U


def selfcheck():
    from .drv import bn_of
    from .drv import vset_states
    from biodivine_aeon import AsynchronousGraph, Attractors
    n = 0
    for net in U.U1() + U.U2() + list(U.kernel().values()):
        a = sorted(net.attractors)
        b = sorted(net.attractors_tarjan)
        assert a == b, ("closure vs tarjan", net)
        g = AsynchronousGraph(bn_of(net).infer_valid_graph())
        c = sorted(vset_states(net, x.vertices()) for x in Attractors.attractors(g))
        assert a == c, ("ref vs AEON", net, a, c)
        n += 1
    return n


def main():
    t = time.time()
    counts = U.build_catalogues()
    print("catalogues:", counts, f"{time.time() - t:.1f}s")
    exp = {"canon": 2804480, "maa": 137369, "multi": 561, "nfvs": 896525, "nfvs_multi": 461}
    assert counts == exp, (counts, exp)
    assert len(U.F3_indices(True)) == 9348 and len(U.F3_indices(False)) == 54872
    n = selfcheck()
    print(f"oracle self-check: {n} networks, closure == Tarjan == AEON")


if __name__ == "__main__":
    main()
