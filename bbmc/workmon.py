"""Work monitor: counts executed loop back-edges per loop site inside the biobalm package (sys.monitoring, CPython 3.12)
and aborts the monitored call from inside the callback when a site exceeds its budget."""
from __future__ import annotations

import sys
import types

mon = sys.monitoring
TOOL = 3


class WorkBudgetExceeded(Exception):
    def __init__(self, filename, line, count):
        super().__init__(f"loop at {filename}:{line} executed {count} back-edges")
        self.filename, self.line, self.count = filename, line, count


class WorkMonitor:
    def __init__(self):
        self.counts = {}
        self.budget = 10 ** 9
        self.sim_budget = 10 ** 9
        self.installed = False
        self.codes = []
        self.tripped = None

    def _collect(self):
        import biobalm
        import os
        root = os.path.dirname(os.path.abspath(biobalm.__file__))
        seen = set()
        out = []

        def walk(code):
            if id(code) in seen:
                return
            seen.add(id(code))
            if code.co_filename.startswith(root):
                out.append(code)
            for c in code.co_consts:
                if isinstance(c, types.CodeType):
                    walk(c)

        for name, mod in list(sys.modules.items()):
            if not name.startswith("biobalm") or mod is None:
                continue
            for obj in list(vars(mod).values()):
                fn = getattr(obj, "__code__", None)
                if isinstance(fn, types.CodeType):
                    walk(fn)
                if isinstance(obj, type):
                    for m in list(vars(obj).values()):
                        f2 = getattr(m, "__code__", None) or getattr(getattr(m, "__func__", None), "__code__", None) \
                            or getattr(getattr(m, "fget", None), "__code__", None)
                        if isinstance(f2, types.CodeType):
                            walk(f2)
        return out

    def install(self):
        if self.installed:
            return
        # make sure every biobalm module is imported before collecting code objects
        import biobalm.control  # noqa
        import biobalm.drivers  # noqa
        mon.use_tool_id(TOOL, "bbmc-workmon")
        self.codes = self._collect()
        ev = mon.events.JUMP | mon.events.BRANCH
        for c in self.codes:
            mon.set_local_events(TOOL, c, ev)
        mon.register_callback(TOOL, mon.events.JUMP, self._cb)
        mon.register_callback(TOOL, mon.events.BRANCH, self._cb)
        self.installed = True

    def uninstall(self):
        if not self.installed:
            return
        for c in self.codes:
            mon.set_local_events(TOOL, c, 0)
        mon.register_callback(TOOL, mon.events.JUMP, None)
        mon.register_callback(TOOL, mon.events.BRANCH, None)
        mon.free_tool_id(TOOL)
        self.installed = False

    def _cb(self, code, offset, dest):
        if dest >= offset:
            return None
        k = (code, dest)
        n = self.counts.get(k, 0) + 1
        self.counts[k] = n
        lim = self.sim_budget if code.co_name in ("run_simulation_minification", "compute_attractor_candidates") else self.budget
        if n > lim and self.tripped is None:
            line = _line_of(code, dest)
            self.tripped = (code.co_filename, line, n)
            raise WorkBudgetExceeded(code.co_filename, line, n)
        return None

    def reset(self, budget, sim_budget):
        self.counts = {}
        self.budget, self.sim_budget = budget, sim_budget
        self.tripped = None

    def max_site(self):
        """(count, file:line, is_simulation) of the busiest loop site since reset"""
        best = (0, None, False)
        for (code, dest), n in self.counts.items():
            if n > best[0]:
                best = (n, f"{code.co_filename.split('/biobalm/')[-1]}:{_line_of(code, dest)}",
                        code.co_name in ("run_simulation_minification", "compute_attractor_candidates"))
        return best

    def max_by_kind(self):
        g = s = 0
        for (code, dest), n in self.counts.items():
            if code.co_name in ("run_simulation_minification", "compute_attractor_candidates"):
                s = max(s, n)
            else:
                g = max(g, n)
        return g, s


def _line_of(code, offset):
    line = code.co_firstlineno
    for start, end, ln in code.co_lines():
        if start <= offset < end and ln is not None:
            return ln
    return line


MON = WorkMonitor()
