"""Finite, completely enumerated input universes (DESIGN §2.2)."""
from __future__ import annotations

import itertools
import json
import os
from functools import lru_cache

from .refmodel import Net, net_from_index, index_of, union, net_from_bnet

CORPUS = os.path.join(os.path.dirname(os.path.dirname(os.path.abspath(__file__))), "corpus")

# ---------------------------------------------------------------------------
# 3-variable machinery on raw 8-bit tables (fast; used by the catalogue builder)
# ---------------------------------------------------------------------------
PERMS3 = list(itertools.permutations(range(3)))


def _perm_state(s, p):
    r = 0
    for i in range(3):
        if (s >> i) & 1:
            r |= 1 << p[i]
    return r


_PS = [[_perm_state(s, p) for s in range(8)] for p in PERMS3]


def permute3(tabs, pi):
    p = PERMS3[pi]
    ps = _PS[pi]
    nt = [0, 0, 0]
    for i in range(3):
        t = tabs[i]
        r = 0
        for s in range(8):
            if (t >> s) & 1:
                r |= 1 << ps[s]
        nt[p[i]] = r
    return tuple(nt)


def idx3(tabs):
    return tabs[0] | (tabs[1] << 8) | (tabs[2] << 16)


def tabs3(idx):
    return (idx & 255, (idx >> 8) & 255, (idx >> 16) & 255)


def canon3(tabs):
    me = idx3(tabs)
    for pi in range(1, 6):
        if idx3(permute3(tabs, pi)) < me:
            return False
    return True


_SUB3 = []
for _vals in itertools.product([None, 0, 1], repeat=3):
    _m = 0
    for _s in range(8):
        if all(v is None or ((_s >> i) & 1) == v for i, v in enumerate(_vals)):
            _m |= 1 << _s
    _SUB3.append(_m)


def analyse3(tabs):
    """(n_attractors, n_min_traps, n_maa, max attractors in one min trap, all_negative_self, n_trap_spaces)"""
    succ = [0] * 8
    for s in range(8):
        m = 0
        for i in range(3):
            if ((tabs[i] >> s) & 1) != ((s >> i) & 1):
                m |= 1 << (s ^ (1 << i))
        succ[s] = m
    reach = [(1 << s) | succ[s] for s in range(8)]
    ch = True
    while ch:
        ch = False
        for s in range(8):
            r = reach[s]
            n = r
            for t in range(8):
                if (r >> t) & 1:
                    n |= reach[t]
            if n != r:
                reach[s] = n
                ch = True
    atts = set()
    for s in range(8):
        r = reach[s]
        if all(reach[t] == r for t in range(8) if (r >> t) & 1):
            atts.add(r)
    traps = [m for m in _SUB3 if all((succ[s] & ~m) == 0 for s in range(8) if (m >> s) & 1)]
    mins = [m for m in traps if not any(u != m and (u & ~m) == 0 for u in traps)]
    maa = sum(1 for a in atts if not any((a & ~m) == 0 for m in mins))
    multi = max(sum(1 for a in atts if (a & ~m) == 0) for m in mins)
    negself = True
    for i in range(3):
        t = tabs[i]
        # exists s with bit i = 0: f(s)=1 and f(s|bit)=0
        ok = False
        for s in range(8):
            if not (s >> i) & 1:
                if (t >> s) & 1 and not (t >> (s | (1 << i))) & 1:
                    ok = True
                    break
        if not ok:
            negself = False
            break
    return len(atts), len(mins), maa, multi, negself, len(traps)


def _cat_work(rng):
    lo, hi = rng
    res = {"canon": 0, "maa": [], "multi": [], "nfvs": [], "nfvs_multi": []}
    for idx in range(lo, hi):
        tabs = tabs3(idx)
        if not canon3(tabs):
            continue
        res["canon"] += 1
        na, nm, maa, multi, negself, nt = analyse3(tabs)
        if maa:
            res["maa"].append(idx)
        if multi > 1:
            res["multi"].append(idx)
        if negself:
            res["nfvs"].append(idx)
            if nt == 1 and na > 1:
                res["nfvs_multi"].append(idx)
    return res


def build_catalogues(jobs=16):
    """classify all 2^24 three-variable networks with the reference model; write the catalogue files"""
    from multiprocessing import Pool
    T = 1 << 24
    step = T // 512
    with Pool(jobs) as p:
        R = p.map(_cat_work, [(i, i + step) for i in range(0, T, step)])
    tot = {"canon": 0, "maa": [], "multi": [], "nfvs": [], "nfvs_multi": []}
    for r in R:
        tot["canon"] += r["canon"]
        for k in ("maa", "multi", "nfvs", "nfvs_multi"):
            tot[k] += r[k]
    os.makedirs(CORPUS, exist_ok=True)
    for k in ("maa", "multi", "nfvs", "nfvs_multi"):
        with open(os.path.join(CORPUS, k + "3.json"), "w") as f:
            json.dump(sorted(tot[k]), f)
    with open(os.path.join(CORPUS, "counts.json"), "w") as f:
        json.dump({"canon": tot["canon"], **{k: len(tot[k]) for k in ("maa", "multi", "nfvs", "nfvs_multi")}}, f)
    return {"canon": tot["canon"], **{k: len(tot[k]) for k in ("maa", "multi", "nfvs", "nfvs_multi")}}


@lru_cache(None)
def catalogue(name):
    path = os.path.join(CORPUS, name + "3.json")
    if not os.path.exists(path):
        build_catalogues()
    with open(path) as f:
        return json.load(f)


# ---------------------------------------------------------------------------
# function alphabets
# ---------------------------------------------------------------------------
def fs38():
    """the 38 three-variable truth tables of functions with <= 2 inputs"""
    V = []
    for i in range(3):
        m = 0
        for s in range(8):
            if (s >> i) & 1:
                m |= 1 << s
        V.append(m)
    out = [0, 255]
    lits = []
    for i in range(3):
        lits.append((i, V[i]))
        lits.append((i, 255 & ~V[i]))
    out += [m for _, m in lits]
    for (i, a), (j, b) in itertools.combinations(lits, 2):
        if i == j:
            continue
        out.append(a & b)
        out.append(a | b)
    for i, j in itertools.combinations(range(3), 2):
        out.append(V[i] ^ V[j])
        out.append(255 & ~(V[i] ^ V[j]))
    out = sorted(set(out))
    assert len(out) == 38, len(out)
    return out


@lru_cache(None)
def F3_indices(canonical=True):
    fs = fs38()
    out = []
    for a in fs:
        for b in fs:
            for c in fs:
                if canonical and not canon3((a, b, c)):
                    continue
                out.append(a | (b << 8) | (c << 16))
    return out


def U3c_shard(seed, stride):
    """the canonical (up to variable renaming) members of {all 2^24 three-variable networks} with index = seed mod stride:
    a complete residue class of the full universe, all 256 functions per variable allowed"""
    return [idx for idx in range(seed % stride, 1 << 24, stride) if canon3(tabs3(idx))]


def U1():
    return [net_from_index(1, i) for i in range(4)]


def U2():
    return [net_from_index(2, i) for i in range(256)]


@lru_cache(None)
def U2c_indices():
    """U2 up to swapping the two variables"""
    out = []
    for idx in range(256):
        a, b = idx & 15, idx >> 4
        # swap: state s=(A,B) -> (B,A)
        def sw(t):
            r = 0
            for s in range(4):
                if (t >> s) & 1:
                    r |= 1 << (((s & 1) << 1) | (s >> 1))
            return r
        o = sw(b) | (sw(a) << 4)
        if o >= idx:
            out.append(idx)
    return out


def with_free_inputs(net):
    """variants of net where identity variables are written as AEON free inputs (no update function)"""
    src = [i for i in range(net.n) if net.tables[i] == net.VARMASK[i]]
    out = []
    for k in range(1, len(src) + 1):
        for c in itertools.combinations(src, k):
            out.append(Net(net.names, net.tables, inputs=c))
    return out


def shard(lst, seed, k):
    return lst[seed % k::k]


# ---------------------------------------------------------------------------
# kernel: named generator networks, one per structure the anchors mention
# ---------------------------------------------------------------------------
KERNEL_BNET = {
    "bistable": "A, B\nB, A",
    "oscillator": "A, !A",
    "bistable_osc": "A, B\nB, A\nC, !C",
    "doc_example": "A, B\nB, A & C\nC, !A | B",
    "two_motifs_one_child": "a, b\nb, a\nc, a & c & d | b & !c | c & !d\nd, !a | d | c",
    "source_switch": "S, S\nA, S | B\nB, A",
    "two_switches": "A, B\nB, A\nC, D\nD, C",
    "switch_feeds_osc": "A, B\nB, A\nC, !C & A",
    "depth_overlap": "A, A | C\nB, A | B\nC, !B | C",
    "maa3": "A, (!A & !B & C) | (A & !B & !C) | (A & B & !C) | (!A & B & C)\nB, (!A & !B & !C) | (A & !B & C) | (!A & B & !C) | (A & B & C)\nC, (!A & !B) | (A & B) | (!A & C) | (B & C)",
    "const_chain": "A, true\nB, A\nC, !B | C",
    "three_cycle": "A, B & C\nB, A & C\nC, A & B",
    "neg_cycle3": "A, !C\nB, A\nC, B",
    "two_inputs": "I, I\nJ, J\nA, (I & !J) | (A & B)\nB, A | J",
    "control_doc": "S, S\nA, S | B\nB, A\nC, A | D\nD, C\nE, false",
    "xor_pair": "A, (A & !B) | (!A & B)\nB, A",
    "toggle_neg": "A, !B\nB, !A",
    "toggle_neg_osc": "A, !B\nB, !A\nC, !C | A",
    "maa_next_switch": None,  # filled below: maa3 (+) bistable
    "nested": "A, A\nB, A & B | !A & C\nC, B | C & !A",
    # a source input above a network with a motif-avoidant attractor: the input's valuation nodes are stubs / skip nodes holding an MAA
    "input_maa": "D, D\nA, (!A & !B) | C\nB, (!A & !B) | C\nC, A & B",
    # several source SCCs with trivial diagrams (oscillators) feeding a downstream component with its own trap space: the
    # "nothing was attached, expand normally" branch of the SCC expansion
    "two_osc_feed": "a, !a\nb, !b\nc, (a & b) | c",
    # two source SCCs, one of them with a succession diagram of depth 2 (SCC attachment below an already expanded root)
    "two_scc_deep": "x1, x2\nx2, x1 | x3\nx3, x3 & x1\ny1, y2\ny2, y1",
    # a source SCC whose sub-diagram has a motif-avoidant attractor in a non-root, non-minimal node
    "scc_inner_maa": "S, T | (S & A)\nT, S\nA, S & ((!A & !B) | C)\nB, S & ((!A & !B) | C)\nC, A & B\nX, !X",
    "allnfvs_two_attr": None,  # index witness D1 (10394725)
    "allnfvs_transient": None,  # index witness D1 (3942170)
    "livelock_witness": None,  # index witness D2 (1745577)
}

_INDEX_WITNESS = {
    "allnfvs_two_attr": 10394725,
    "allnfvs_transient": 3942170,
    "livelock_witness": 1745577,
    "maa_16555679": 16555679,
    "depth_15986426": 15986426,
}


@lru_cache(None)
def kernel():
    """name -> Net"""
    out = {}
    for k, v in KERNEL_BNET.items():
        if v is not None:
            out[k] = net_from_bnet(v)
    for k, i in _INDEX_WITNESS.items():
        out[k] = net_from_index(3, i)
    out["maa_next_switch"] = union(net_from_index(3, 16555679), Net(["X", "Y"], [0b1100, 0b1010]))
    return out


def kernel_small(maxn=4):
    return {k: v for k, v in kernel().items() if v.n <= maxn}


def P4_pairs(canonical=True):
    ids = U2c_indices() if canonical else list(range(256))
    out = []
    for a in ids:
        for b in ids:
            if canonical and b < a:
                continue
            out.append((a, b))
    return out


def net_P4(a, b):
    return union(net_from_index(2, a, ["A", "B"]), net_from_index(2, b, ["C", "D"]), ["C", "D"])


def I3_nets():
    """one identity input I + two internal variables A,B with <=2-input functions over {I,A,B}"""
    fs = fs38()  # over 3 variables (I=0, A=1, B=2)
    ident = 0
    for s in range(8):
        if s & 1:
            ident |= 1 << s
    out = []
    for a in fs:
        for b in fs:
            out.append(Net(["I", "A", "B"], [ident, a, b]))
    return out


def bbm_models():
    d = os.environ.get("VERIF_REPO", "/repo") + "/models/bbm-bnet-inputs-true"
    return sorted(os.path.join(d, f) for f in os.listdir(d) if f.endswith(".bnet"))


# ---------------------------------------------------------------------------
# compact, JSON-able network specs (used in work units and replay files)
# ---------------------------------------------------------------------------
# a motif-avoidant attractor in a module that is only alive below b=1, next to two converging modules: the attractor lies in
# the intersection of the incomparable trap spaces {a=1,p=0,b=1,q=0} and {b=1,q=0,y=1} (shape contributed by seeded change C05-w5-1)
GATED_MAA_BNET = """a, a | p
p, !a & !p
b, b | q
q, !b & !q
x, (!x & !y & !z) | (!x & y & z) | (x & !y & z) | (x & y & !z)
y, b & (y | (!x & z))
z, (y & ((!x & z) | (x & !z))) | !b
"""


def DEP4_bnets():
    """a two-variable feedback core (c, d) below two dependent self-sustaining variables (a, b), every choice of operator,
    regulator and sign: 4-variable networks whose source blocks contain each other (shape contributed by seeded change C03-w5-2;
    the dependents sort before the core on purpose)"""
    out = []
    deps = [f"{{x}} {op} {neg}{r}" for op in ("|", "&") for neg in ("", "!") for r in ("c", "d")]
    for core in ("c, d\nd, c", "c, !d\nd, !c"):
        for fa in deps:
            for fb in deps:
                out.append(f"a, {fa.format(x='a')}\nb, {fb.format(x='b')}\n{core}\n")
    return out


def resolve(spec):
    spec = list(spec)
    k = spec[0]
    if k == "idx":
        return net_from_index(spec[1], spec[2])
    if k == "fi":  # index + free-input variable indices
        base = net_from_index(spec[1], spec[2])
        return Net(base.names, base.tables, inputs=spec[3])
    if k == "k":
        return kernel()[spec[1]]
    if k == "p4":
        return net_P4(spec[1], spec[2])
    if k == "u":
        return union(resolve(spec[1]), resolve(spec[2]))
    if k == "i3":
        return I3_nets()[spec[1]]
    if k == "api":  # base network with new names, declared through the API in the given (unsorted) order
        base = resolve(spec[1])
        net = Net(list(spec[2]), base.tables, base.inputs)
        net.api_order = True
        return net
    if k == "bnet":  # a network written out in .bnet form (used for a few hand-made shapes that no catalogue contains)
        from .refmodel import net_from_bnet
        return net_from_bnet(spec[1])
    if k == "desc":
        d = spec[1]
        return Net(d["names"], d["tables"], d.get("inputs", ()))
    raise ValueError(spec)


def chunks(lst, size):
    return [lst[i:i + size] for i in range(0, len(lst), size)]
