"""Oracles: invariants of a live SuccessionDiagram judged against the explicit-state reference model."""
from __future__ import annotations

import networkx as nx

from .refmodel import key, sub, Net
from .drv import vset_states


def net_desc(net):
    return {"names": list(net.names), "tables": list(net.tables), "inputs": sorted(net.inputs)}


def net_of(desc):
    return Net(desc["names"], desc["tables"], desc.get("inputs", ()))


def fmt_state(net, s):
    return "".join(str((s >> i) & 1) for i in range(net.n))


def node_mask(net, sd, i):
    return net.mask_of(sd.node_data(i)["space"])


def own_attractors(net, sd, i):
    """ref attractors inside node i and inside none of its current successors"""
    m = node_mask(net, sd, i)
    ch = [node_mask(net, sd, j) for j in sd.dag.successors(i)]
    return [a for a in net.attractors if (a & ~m) == 0 and not any((a & ~c) == 0 for c in ch)]


def seeds_check(net, sd, seeds_by_node, exact_nodes=True):
    """C01 oracle on a {node: [seed dict]} map. Returns (violations, hit-list of attractor masks)."""
    out = []
    hits = []
    for i, seeds in seeds_by_node.items():
        m = node_mask(net, sd, i)
        ch = [node_mask(net, sd, j) for j in sd.dag.successors(i)]
        for sdict in seeds:
            if len(sdict) != net.n or set(sdict) != set(net.names):
                out.append(("seed-not-full-state", f"node {i}: {sdict}"))
                continue
            s = net.state_of(sdict)
            a = net.attractor_of(s)
            if a is None:
                out.append(("seed-not-in-attractor", f"node {i} seed {fmt_state(net, s)} is transient"))
                continue
            if a & ~m:
                out.append(("seed-attractor-outside-node", f"node {i} seed {fmt_state(net, s)}"))
                continue
            if exact_nodes and any((a & ~c) == 0 for c in ch):
                out.append(("seed-attractor-inside-successor", f"node {i} seed {fmt_state(net, s)}"))
                continue
            hits.append(a)
    return out, hits


def bijection_check(net, hits):
    out = []
    if len(hits) != len(set(hits)):
        out.append(("attractor-reported-twice", f"{len(hits)} seeds for {len(set(hits))} attractors"))
    miss = [a for a in net.attractors if a not in set(hits)]
    if miss:
        out.append(("attractor-missing", f"{len(miss)} of {len(net.attractors)} attractors have no seed, e.g. states "
                    f"{[fmt_state(net, s) for s in _bits(miss[0])][:4]}"))
    return out


def _bits(m):
    s = 0
    while m:
        if m & 1:
            yield s
        m >>= 1
        s += 1


def structure_check(net, sd, faithful=True):
    """C02/C04: expanded non-skip nodes have exactly the ref successors and motifs; stubs have none; no duplicates."""
    out = []
    nodes, edges, rootk = net.sd
    seen = {}
    for i in sd.node_ids():
        d = sd.node_data(i)
        k = key(d["space"])
        if k in seen:
            out.append(("duplicate-node", f"space {k} is node {seen[k]} and {i}"))
        seen[k] = i
        succ = list(sd.dag.successors(i))
        if not d["expanded"]:
            if succ:
                out.append(("stub-with-successors", f"node {i} {k}"))
            continue
        if not faithful:
            continue
        if d["skipped"]:
            continue
        if k not in nodes:
            out.append(("node-not-in-full-diagram", f"node {i} {k}"))
            continue
        got = {key(sd.node_data(j)["space"]): j for j in succ}
        exp = net.sd_children(k)
        if set(got) != exp:
            out.append(("successors-differ", f"node {i} {k}: got {sorted(got)} expected {sorted(exp)}"))
            continue
        for kc, j in got.items():
            e = sd.dag.edges[i, j]
            gm = sorted(key(m) for m in e["all_motifs"])
            em = sorted(key(m) for m in edges[(k, kc)])
            if gm != em:
                out.append(("motifs-differ", f"edge {i}->{j}: got {gm} expected {em}"))
            if key(e["motif"]) not in em:
                out.append(("motif-not-among-expected", f"edge {i}->{j}: {key(e['motif'])}"))
    # index consistency
    from biobalm.space_utils import space_unique_key
    idx = {}
    for i in sd.node_ids():
        idx[space_unique_key(sd.node_data(i)["space"], sd.network)] = i
    if idx != dict(sd.node_indices):
        out.append(("key-index-inconsistent", f"{sorted(idx.items())} vs {sorted(sd.node_indices.items())}"))
    return out


def meta_check(net, sd):
    """C20: depth = longest root path, ids contiguous"""
    out = []
    ids = sorted(sd.dag.nodes())
    if ids != list(range(len(sd))):
        out.append(("ids-not-contiguous", str(ids)))
        return out
    if not nx.is_directed_acyclic_graph(sd.dag):
        out.append(("dag-has-cycle", ""))
        return out
    lp = {i: (0 if i == 0 else None) for i in ids}
    for u in nx.topological_sort(sd.dag):
        if lp[u] is None:
            continue
        for v in sd.dag.successors(u):
            lp[v] = max(lp[v] if lp[v] is not None else 0, lp[u] + 1)
    for i in ids:
        if lp[i] is not None and lp[i] != sd.node_data(i)["depth"]:
            out.append(("depth-wrong", f"node {i} {key(sd.node_data(i)['space'])}: depth {sd.node_data(i)['depth']} "
                        f"but longest root path {lp[i]}"))
            break
    md = max(sd.node_data(i)["depth"] for i in ids)
    if sd.depth() != md:
        out.append(("diagram-depth-wrong", f"{sd.depth()} vs {md}"))
    return out


def cache_check(net, sd, nodes=None):
    """C14: whatever is cached is right for the node's current successors"""
    out = []
    for i in (nodes if nodes is not None else sd.node_ids()):
        d = sd.node_data(i)
        m = node_mask(net, sd, i)
        own = own_attractors(net, sd, i)
        seeds, cands, sets = d["attractor_seeds"], d["attractor_candidates"], d["attractor_sets"]
        skipped = bool(d["skipped"])
        if seeds is not None:
            hit = []
            bad = False
            for sdict in seeds:
                if len(sdict) != net.n:
                    out.append(("cached-seed-not-full-state", f"node {i}: {sdict}"))
                    bad = True
                    continue
                s = net.state_of(sdict)
                a = net.attractor_of(s)
                if a is None or (a & ~m):
                    out.append(("cached-seed-not-attractor-of-node", f"node {i} seed {fmt_state(net, s)}"))
                    bad = True
                    continue
                if a not in own:
                    out.append(("cached-seed-inside-successor", f"node {i} seed {fmt_state(net, s)} (stale for current successors)"))
                    bad = True
                    continue
                hit.append(a)
            if len(hit) != len(set(hit)):
                out.append(("cached-seeds-duplicate", f"node {i}"))
            if not skipped and not bad and set(hit) != set(own):
                out.append(("cached-seeds-incomplete", f"node {i}: {len(set(hit))} of {len(own)} attractors"))
        if cands is not None:
            cs = 0
            okc = True
            for c in cands:
                if len(c) != net.n:
                    out.append(("cached-candidate-not-full-state", f"node {i}: {c}"))
                    okc = False
                    continue
                s = net.state_of(c)
                if not (m >> s) & 1:
                    out.append(("cached-candidate-outside-node", f"node {i}: {fmt_state(net, s)}"))
                cs |= 1 << s
            if okc and not skipped and any(not (a & cs) for a in own):
                out.append(("cached-candidates-miss-attractor", f"node {i}"))
        if sets is not None:
            if seeds is None:
                pass
            elif len(sets) != len(seeds):
                out.append(("cached-sets-length", f"node {i}: {len(sets)} sets, {len(seeds)} seeds"))
            else:
                for sdict, vs in zip(seeds, sets):
                    if len(sdict) != net.n:
                        continue
                    a = net.attractor_of(net.state_of(sdict))
                    if vset_states(net, vs) != a:
                        out.append(("cached-set-not-attractor-of-seed", f"node {i}"))
    return out
