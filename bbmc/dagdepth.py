"""Depth-bookkeeping harness (C20): exhaustive model check of the real `_ensure_edge` / `_update_node_depth` on synthetic
diagrams. Every DAG shape on k nodes (topologically labelled, all nodes reachable from the root, bounded edge count) x every
order in which its nodes can be expanded one by one (a node can be expanded once some parent has been) is explored as an
explicit state graph: a state is (set of expanded nodes, depth vector); a transition expands one more node by calling the
real `_ensure_edge` for each of its out-edges (ascending or descending child order). Invariant in every state: every
discovered node's depth equals the longest root path in the current DAG.

Abstraction argument: the depth code reads only the DAG and the depth attributes, a real diagram can have any DAG shape
(chords arise from percolation overlaps), and single-node expansion (`node_successors(i, compute=True)`) in any order is
exactly the transition modelled here."""
from __future__ import annotations

import itertools

import networkx as nx

from . import drv  # noqa: F401  (puts the tree under test first on sys.path)


def dags(k, max_edges):
    """edge lists over nodes 0..k-1 with i<j, every node reachable from 0, at most max_edges edges"""
    pairs = [(i, j) for i in range(k) for j in range(i + 1, k)]
    for m in range(k - 1, max_edges + 1):
        for es in itertools.combinations(pairs, m):
            # reachability: every j>0 needs an incoming edge (labels are topological, so that suffices by induction)
            indeg = [0] * k
            for _, j in es:
                indeg[j] = 1
            if all(indeg[1:]):
                yield es


def longest(k, edges_present):
    lp = [None] * k
    lp[0] = 0
    for i in range(k):
        if lp[i] is None:
            continue
        for (a, b) in edges_present:
            if a == i:
                lp[b] = max(lp[b] if lp[b] is not None else 0, lp[i] + 1)
    return lp


def check_dag(sd_factory, k, es, order):
    """BFS over (expanded set, depths). Returns a violation description or None, plus (states, transitions)."""
    children = {i: sorted([b for (a, b) in es if a == i], reverse=(order == "desc")) for i in range(k)}
    start = (frozenset(), tuple([0] * k))
    seen = {start}
    frontier = [(start, ())]
    transitions = 0
    while frontier:
        nxt = []
        for (expanded, depths), hist in frontier:
            disc = {0} | {b for a in expanded for b in children[a]}
            for i in sorted(disc - expanded):
                sd = sd_factory()
                g = nx.DiGraph()
                for v in range(k):
                    g.add_node(v, depth=depths[v])
                for a in sorted(expanded, key=lambda a: hist.index(a)):
                    for b in children[a]:
                        g.add_edge(a, b, motif={}, all_motifs=[{}])
                sd.dag = g
                for b in children[i]:
                    sd._ensure_edge(i, b, {})  # real code under test
                transitions += 1
                nexp = expanded | {i}
                nd = tuple(g.nodes[v]["depth"] for v in range(k))
                present = [(a, b) for a in nexp for b in children[a]]
                lp = longest(k, present)
                for v in range(k):
                    if lp[v] is not None and nd[v] != lp[v]:
                        return (f"DAG {list(es)} (child order {order}), expansion order {list(hist) + [i]}: node {v} has depth {nd[v]} "
                                f"but the longest root path is {lp[v]}"), (len(seen), transitions)
                st = (nexp, nd)
                if st not in seen:
                    seen.add(st)
                    nxt.append((st, hist + (i,)))
        frontier = nxt
    return None, (len(seen), transitions)
