#!/venv/bin/python
"""regenerate /verif/MANIFEST.json from the table below (keeps it valid at all times)"""
import json, os, subprocess, sys
ROOT = os.path.dirname(os.path.dirname(os.path.abspath(__file__)))
sys.path.insert(0, ROOT)
from bbmc.manifest_data import CHECKS, NOT_CLAIMED  # noqa

checks = []
for pid, c in sorted(CHECKS.items()):
    checks.append({
        "property_id": pid,
        "quick_cmd": f"bin/check {pid} --tier quick",
        "thorough_cmd": f"bin/check {pid} --tier thorough",
        "evidence_file": f"/verif/evidence/{pid}.json",
        "replay_cmd_template": f"bin/check {pid} --replay {{path}}",
        "engine": "bbmc",
        "level_claimed": {"category": c.get("level", "model_checking"), "text": c["text"], "design_ref": c["ref"]},
        "level_note": c["note"],
        "technique": c["technique"],
    })
m = {
    "version": 1,
    "setup_cmd": "bin/setup",
    "hooks": {
        "guard": "BIOBALM_VERIF",
        "enable": "no source hooks: checks import /repo's working tree directly (sys.path), inject solver faults by patching "
                  "clingo.control.Control and count work with sys.monitoring; BIOBALM_VERIF is reserved and unused",
        "baseline_off_cmd": "cd /repo && /venv/bin/python -m pytest -ra -q -p no:cacheprovider --timeout=900 --continue-on-collection-errors",
        "source_commits": [],
        "add_only": True,
    },
    "engines": [{
        "name": "bbmc", "path": "/verif/bbmc",
        "serves_properties": sorted(CHECKS),
        "kind_free_text": "explicit-state bounded model checker written for this task: exhaustive enumeration of finite input "
                          "universes, API-call histories (BFS over the real SuccessionDiagram transition function with canonical "
                          "state hashing), limit values and solver-call fault points, judged against an explicit-state reference "
                          "model of asynchronous Boolean-network dynamics",
    }],
    "checks": checks,
    "not_applicable": [{"property_id": p, "reason": r} for p, r in sorted(NOT_CLAIMED.items()) if p not in CHECKS],
    "notes": "See DESIGN.md. Genuine defects found (D1-D13) are repaired by 'fix:' commits in /repo and recorded in known_findings.json; no open "
             "finding. Quick commands take 0.5-4 min each on 16 cores. Thorough commands walk a much larger plan in plan order within a "
             "wall-clock budget (VERIF_THOROUGH_BUDGET_S, default 420 s; 0 = whole plan, up to ~70 min per property); units not started are "
             "reported in the evidence as a cap, never as a pass. VERIF_SEED selects the catalogue shards.",
}
with open(os.path.join(ROOT, "MANIFEST.json"), "w") as f:
    json.dump(m, f, indent=1)
code = "import json,sys,jsonschema;jsonschema.validate(json.load(open(sys.argv[1])),json.load(open(sys.argv[2])))"
subprocess.run(["/opt/veriftools/pyvenv/bin/python", "-c", code, os.path.join(ROOT, "MANIFEST.json"), "/root/.vp/MANIFEST.schema.json"], check=True)
print("MANIFEST.json ok:", len(checks), "checks;", len(m["not_applicable"]), "not claimed")
