#!/bin/sh
# wave.sh <PROP> <k> <checks...>: vet a mutant, then run the given quick checks against the patched tree
P=$1; K=$2; shift 2
/verif/tools/vet_mutant.sh $P $K > /tmp/vet-$P-$K.verdict 2>&1
echo "== $P-$K vet: $(tr '\n' ' ' < /tmp/vet-$P-$K.verdict)"
if grep -q "suite_rc=0" /tmp/vet-$P-$K.verdict && grep -q "demo_mutant_rc=1" /tmp/vet-$P-$K.verdict && grep -q "demo_clean_rc=0" /tmp/vet-$P-$K.verdict; then
  /verif/tools/mutant_checks.sh /tmp/vet-$P-$K "$@" | tee /tmp/mcw-$P-$K.log | cut -c1-330
else
  echo "== $P-$K NOT VALID"
fi
