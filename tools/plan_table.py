#!/venv/bin/python
"""regenerate DESIGN.md §10.5 (between PLAN markers): universes and unit counts of every check as planned for seed 0"""
import importlib, os, re, sys, json
ROOT = os.path.dirname(os.path.dirname(os.path.abspath(__file__)))
sys.path.insert(0, ROOT)
os.environ.setdefault("PYTHONHASHSEED", "0")
rows = ["| check | tier | work units | universes (name: size) |", "|---|---|---|---|"]
for i in range(1, 21):
    pid = f"C{i:02d}"
    mod = importlib.import_module(f"bbmc.checks.{pid.lower()}")
    for tier in ("quick", "thorough"):
        p = mod.plan(tier, 0)
        uni = "; ".join(f"{k}: {v}" for k, v in p["universes"].items())
        rows.append(f"| {pid} | {tier} | {len(p['units'])} | {uni.replace('|', '/')} |")
table = "<!-- PLAN-BEGIN -->\n" + "\n".join(rows) + "\n<!-- PLAN-END -->"
path = os.path.join(ROOT, "DESIGN.md")
s = open(path).read()
if "<!-- PLAN-BEGIN -->" in s:
    s = re.sub(r"<!-- PLAN-BEGIN -->.*?<!-- PLAN-END -->", lambda _: table, s, flags=re.S)
else:
    s += "\n### 10.5 Universes per check as implemented (VERIF_SEED=0; the evidence files record the measured counts of each run)\n\n" + table + "\n"
open(path, "w").write(s)
print("plan table:", len(rows) - 2, "rows")
