#!/bin/sh
# mutant_checks.sh <patched tree> <ids...>: run quick checks against a scratch tree (VERIF_REPO), outputs under /tmp/mut-out/<name>
WT=$1; shift
NAME=$(basename $WT)
OUT=/tmp/mut-out/$NAME
mkdir -p $OUT
cd /verif
for id in "$@"; do
  VERIF_REPO=$WT VERIF_OUT=$OUT bin/check $id --tier quick > $OUT/$id.log 2>&1
  echo "$NAME $id rc=$? $(grep -c '^VIOLATION' $OUT/$id.log) violations; $(grep '^VIOLATION' -A1 $OUT/$id.log | grep oracle | head -2 | cut -c1-220 | tr '\n' ' ')"
done
