#!/venv/bin/python
"""regenerate the seeded-changes table in DESIGN.md (between the SEEDED markers) from seeded/*/meta.json"""
import glob, json, os, re
ROOT = os.path.dirname(os.path.dirname(os.path.abspath(__file__)))
rows = ["| seeded change | breaks | what it is | needs | caught by (quick) |", "|---|---|---|---|---|"]
for f in sorted(glob.glob(os.path.join(ROOT, "seeded", "*", "meta.json"))):
    m = json.load(open(f))
    def clip(x, n):
        x = " ".join(str(x or "").split()).replace("|", "\\|")
        return x if len(x) <= n else x[: n - 1] + "…"
    det = ", ".join(m["detected_by"]) if m["detected_by"] else "**not caught**"
    rows.append(f"| `{m['id']}` | {m['breaks_property']} | {clip(m['summary'], 150)} | {clip(m['needs_to_manifest'], 130)} | {det} |")
table = "<!-- SEEDED-BEGIN -->\n" + "\n".join(rows) + "\n<!-- SEEDED-END -->"
p = os.path.join(ROOT, "DESIGN.md")
s = open(p).read()
if "SEEDED_TABLE" in s:
    s = s.replace("SEEDED_TABLE", table)
else:
    s = re.sub(r"<!-- SEEDED-BEGIN -->.*?<!-- SEEDED-END -->", lambda _: table, s, flags=re.S)
open(p, "w").write(s)
print(len(rows) - 2, "seeded changes in table")
