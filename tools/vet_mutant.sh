#!/bin/sh
# vet_mutant.sh <PROP> <k>: confirm a sub-agent's mutant in a scratch worktree: patch applies, suite passes with it,
# demo fails with it and passes without. Leaves the patched worktree at /tmp/vet-<PROP>-<k> for check runs; prints a verdict.
P=$1; K=$2; OUTD=/tmp/out-$P; WT=/tmp/vet-$P-$K
git -C /repo worktree remove --force $WT >/dev/null 2>&1
git -C /repo worktree add -q --detach $WT HEAD || exit 2
cd $WT
( /venv/bin/python $OUTD/demo$K.py >/tmp/vet-$P-$K.clean.log 2>&1; echo "demo_clean_rc=$?" ) 
git apply $OUTD/patch$K.diff || { echo "PATCH DOES NOT APPLY"; exit 2; }
( /venv/bin/python $OUTD/demo$K.py >/tmp/vet-$P-$K.mut.log 2>&1; echo "demo_mutant_rc=$?" )
/verif/tools/run_suite.sh $WT /var/tmp/bbmc-suite-$P-$K
echo "suite_rc=$?"
