#!/venv/bin/python
"""keep_seeded.py <PROP> <k> <slug> <detected_by comma list> [note]: store a vetted sub-agent mutant under /verif/seeded/"""
import json, os, shutil, sys, glob, re
prop, k, slug, det = sys.argv[1:5]
note = sys.argv[5] if len(sys.argv) > 5 else ""
src = f"/tmp/out-{prop}"
wave = os.environ.get("WAVE", "")
dst = f"/verif/seeded/{prop}-{wave}{k}-{slug}"
os.makedirs(dst, exist_ok=True)
shutil.copy(f"{src}/patch{k}.diff", f"{dst}/patch.diff")
shutil.copy(f"{src}/demo{k}.py", f"{dst}/demo.py")
notes = json.load(open(f"{src}/notes{k}.json"))
verdict = open(f"/tmp/vet-{prop}-{k}.verdict").read() if os.path.exists(f"/tmp/vet-{prop}-{k}.verdict") else ""
runs = []
for f in sorted(glob.glob(f"/tmp/mc*-{prop}-{k}*.log") + glob.glob(f"/tmp/mc*vet-{prop}-{k}*.log")):
    for line in open(f):
        m = re.match(r"vet-\S+ (C\d+) rc=(\d+) (\d+) violations;\s*(.*)", line)
        if m:
            runs.append({"check": m.group(1), "exit": int(m.group(2)), "violation_lines": int(m.group(3)), "first": m.group(4)[:300]})
meta = {
    "id": os.path.basename(dst),
    "breaks_property": prop,
    "summary": notes.get("summary"),
    "needs_to_manifest": notes.get("needs"),
    "why_existing_tests_pass": notes.get("why_tests_pass"),
    "files": notes.get("files"),
    "origin": "independent sub-agent given only the property text and a scratch worktree",
    "confirmed": {
        "how": "tools/vet_mutant.sh: fresh scratch worktree of /repo HEAD; demo run without the patch (must exit 0), patch applied with git apply, demo run again (must exit non-zero), repository suite run with the patch and compared with BASELINE.json",
        "verdict": verdict.strip().split("\n"),
    },
    "check_runs_against_patched_tree": runs,
    "detected_by": [d for d in det.split(",") if d],
    "note": note,
}
json.dump(meta, open(f"{dst}/meta.json", "w"), indent=1)
print("kept", dst, "detected_by", meta["detected_by"])
