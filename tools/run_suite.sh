#!/bin/sh
# run the repository's pinned suite on a tree (default /repo) and compare with BASELINE.json's stable_pass list
TREE=${1:-/repo}
OUT=${2:-/var/tmp/bbmc-suite.$$}
mkdir -p "$OUT"
cd "$TREE" && /venv/bin/python -m pytest -ra -q -p no:cacheprovider --timeout=900 --continue-on-collection-errors --junitxml="$OUT/junit.xml" > "$OUT/log" 2>&1
/venv/bin/python - "$OUT/junit.xml" <<'PY'
import sys, json, xml.etree.ElementTree as ET
base = set(json.load(open('/root/.vp/BASELINE.json'))['stable_pass'])
t = ET.parse(sys.argv[1]); ok = set()
for tc in t.iter('testcase'):
    name = tc.get('classname') + '::' + tc.get('name')
    if not any(ch.tag in ('failure', 'error', 'skipped') for ch in tc):
        ok.add(name)
missing = sorted(base - ok)
print(f"suite: {len(ok & base)}/{len(base)} baseline tests pass; missing: {missing[:10]}")
sys.exit(1 if missing else 0)
PY
RC=$?
rm -rf "$OUT"
exit $RC
