#!/bin/sh
# run_all.sh <tier> <seed> <outdir> [ids...]: run checks sequentially with outputs redirected (evidence of /verif untouched)
TIER=$1; SEED=$2; OUT=$3; shift 3
IDS=${@:-C01 C02 C03 C04 C05 C06 C07 C08 C09 C10 C11 C12 C13 C14 C15 C16 C17 C18 C19 C20}
mkdir -p $OUT
[ -f corpus/maa3.json ] || bin/setup > $OUT/setup.log 2>&1
for id in $IDS; do
  T0=$(date +%s)
  VERIF_SEED=$SEED VERIF_OUT=$(realpath $OUT) bin/check $id --tier $TIER > $OUT/$id.log 2>&1
  RC=$?
  echo "$id tier=$TIER seed=$SEED rc=$RC $(( $(date +%s) - T0 ))s $(grep -c '^VIOLATION' $OUT/$id.log) violations $(grep -c 'HARNESS-ERROR' $OUT/$id.log) harness-errors" | tee -a $OUT/summary.txt
done
