"""Plain pytest replays of the defects found by the bbmc checks (no explorer involved): every case must be silent on the
repaired tree. Run:  cd /verif && PYTHONHASHSEED=0 /venv/bin/python -m pytest -q regressions
(VERIF_REPO=<tree> selects another tree; on the pinned snapshot every case of D1-D12 fails; the D13 case fails on the
tree just before its repair, /repo 27ce604.)"""
import importlib
import json
import os
import sys

import pytest

ROOT = os.path.dirname(os.path.dirname(os.path.abspath(__file__)))
sys.path.insert(0, ROOT)
CASES = json.load(open(os.path.join(os.path.dirname(os.path.abspath(__file__)), "cases.json")))


@pytest.mark.parametrize("entry", CASES, ids=[f"{c['defect']}-{c['check']}-{i}" for i, c in enumerate(CASES)])
def test_replay(entry):
    mod = importlib.import_module("bbmc.checks." + entry["check"].lower())
    found = mod.replay(entry["case"])
    hit = [v for v in found if v["oracle"] == entry["oracle"]]
    assert not hit, hit[0]
