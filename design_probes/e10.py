import clingo, clingo.control
from biobalm import SuccessionDiagram
orig=clingo.control.Control.solve
state={'n':0,'fail':None}
def solve(self,*a,**k):
    i=state['n']; state['n']+=1
    if state['fail']==i: raise RuntimeError("injected solver failure")
    return orig(self,*a,**k)
clingo.control.Control.solve=solve
rules="A, B\nB, A\nC, !C & A\nD, C | D"
sd=SuccessionDiagram.from_rules(rules); print(sd.expand_scc()); total=state['n']; print("solver calls",total, len(sd))
for k in range(total):
    state['n']=0; state['fail']=k
    sd=SuccessionDiagram.from_rules(rules)
    try:
        sd.expand_scc(); print(k,"no error")
    except RuntimeError as e:
        bad=[i for i in sd.node_ids() if (sd.node_data(i)['expanded'] and False)]
        # invalid: unexpanded with successors
        inv=[(i,sd.node_data(i)['expanded'],list(sd.dag.successors(i))) for i in sd.node_ids()]
        print(k,"err",inv)
