import itertools, sys, time, traceback
from ref import *
from biobalm import SuccessionDiagram
def all_nets(n):
    names=[chr(65+i) for i in range(n)]
    for tabs in itertools.product(itertools.product([0,1],repeat=1<<n),repeat=n):
        yield Net(names,tabs)
def state_dict(net,s): return {net.names[i]:(s>>i)&1 for i in range(net.n)}
def check(net, strat):
    sd=SuccessionDiagram.from_rules(net.bnet())
    ok=getattr(sd,strat)() if strat!='build' else (sd.build() or True)
    assert ok
    seeds=sd.expanded_attractor_seeds()
    atts=net.attractors()
    # one-to-one
    found=[]
    for nid,ss in seeds.items():
        for s in ss:
            st=sum(s[nm]<<i for i,nm in enumerate(net.names))
            a=[A for A in atts if st in A]
            assert len(a)==1,("seed not in attractor",nid,s)
            found.append(a[0])
    assert len(found)==len(set(found)),("dup",seeds)
    assert set(found)==set(atts),("missing",seeds,atts)
    mt={key(sd.node_data(i)['space']) for i in sd.minimal_trap_spaces()}
    assert mt=={key(t) for t in min_traps(net)},("mintraps",mt)
    if strat in('expand_bfs','expand_dfs'):
        nodes,edges=sd_reference(net)
        got={key(sd.node_data(i)['space']) for i in sd.node_ids()}
        assert got==set(nodes),("nodes",got,set(nodes))
        ge={(key(sd.node_data(a)['space']),key(sd.node_data(b)['space'])) for a,b in sd.dag.edges}
        assert ge==set(edges),("edges",)
if __name__=="__main__":
  pass
n=0;strats=[]
if 0:
  n=int(sys.argv[1]); strats=sys.argv[2:]
t=time.time();cnt=0;fails={}
for net in all_nets(n):
    for st in strats:
        cnt+=1
        try: check(net,st)
        except BaseException as e:
            k=(st,type(e).__name__,str(e)[:60])
            fails.setdefault(k,[]).append(net.bnet())
print(cnt,time.time()-t)
for k,v in fails.items():
    print(k,len(v)); print(v[0]); print('--')
