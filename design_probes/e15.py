import sys, itertools, time
from multiprocessing import Pool
from cat3 import canon
import networkx as nx
def fs38():
    fs=[]
    for t in range(256):
        deps=[any(((t>>s)&1)!=((t>>(s^(1<<i)))&1) for s in range(8)) for i in range(3)]
        if sum(deps)<=2: fs.append(t)
    return fs
def work(idxs):
    from e3 import net_from_index
    from biobalm import SuccessionDiagram
    out=[]
    for idx in idxs:
        net=net_from_index(3,idx)
        for strat in ("expand_bfs","expand_dfs","expand_minimal_spaces"):
            sd=SuccessionDiagram.from_rules(net.bnet()); getattr(sd,strat)()
            # longest path
            order=list(nx.topological_sort(sd.dag)); lp={i:0 for i in sd.node_ids()}
            for u in order:
                for v in sd.dag.successors(u): lp[v]=max(lp[v],lp[u]+1)
            reach=nx.descendants(sd.dag,0)|{0}
            bad=[(i,lp[i],sd.node_data(i)['depth']) for i in sd.node_ids() if i in reach and lp[i]!=sd.node_data(i)['depth']]
            if bad: out.append((idx,strat,bad))
    return out
if __name__=="__main__":
    fs=fs38()
    idxs=[a|(b<<8)|(c<<16) for a in fs for b in fs for c in fs if canon((a,b,c))]
    print(len(idxs))
    chunks=[idxs[i::64] for i in range(64)]
    t=time.time()
    with Pool(16) as p: R=p.map(work,chunks)
    bad=[x for r in R for x in r]
    print(len(bad),time.time()-t); print(bad[:5])
