"""scratch: depth-bounded history exploration with structure/cache/meta invariants (C04/C14/C15/C20 readings)"""
import sys, time, itertools, collections, pickle, signal
from multiprocessing import Pool
from ref import *
class TO(Exception): pass
def _h(s,f): raise TO()
def parse_bnet(rules):
    # build Net from bnet via AEON truth tables
    from biodivine_aeon import BooleanNetwork, AsynchronousGraph
    bn=BooleanNetwork.from_bnet(rules).infer_valid_graph()
    names=bn.variable_names(); n=len(names)
    g=AsynchronousGraph(bn); tabs=[]
    for v in names:
        f=g.mk_update_function(v)
        t=[]
        for s in range(1<<n):
            val={names[i]:bool((s>>i)&1) for i in range(n)}
            r=f.r_restrict({k:val[k] for k in val}) if True else None
            t.append(1 if r.is_true() else 0)
        tabs.append(tuple(t))
    return Net(names,tuple(tabs))
def st(net,d): return sum(d[nm]<<i for i,nm in enumerate(net.names))
def ops_for(sd):
    ids=list(sd.node_ids())
    for n in ids:
        yield ("succ",n); yield ("seeds",n); yield ("sets",n)
        yield ("cand",n,True,True); yield ("cand",n,False,False)
        yield ("skip",n)
        yield ("bfs",n,None,None); yield ("dfs",n,None,None); yield ("min",n,None,False); yield ("min",n,None,True)
    for s in (None,2):
        yield ("bfs",0,0,s); yield ("dfs",0,1,s); yield ("aseeds",s)
        for m in (True,False):
            for o in (True,False): yield ("block",m,s,o)
    yield ("scc",True); yield ("scc",False); yield ("skiprem",); yield ("reclaim",); yield ("pickle",); yield ("build",)
def apply(sd,op):
    k=op[0]
    if k=="succ": sd.node_successors(op[1],compute=True)
    elif k=="seeds": sd.node_attractor_seeds(op[1],compute=True)
    elif k=="sets": sd.node_attractor_sets(op[1],compute=True)
    elif k=="cand": sd.node_attractor_candidates(op[1],compute=True,greedy_asp_minification=op[2],simulation_minification=op[3])
    elif k=="skip": sd.skip_to_minimal(op[1])
    elif k=="bfs": sd.expand_bfs(op[1],op[2],op[3])
    elif k=="dfs": sd.expand_dfs(op[1],op[2],op[3])
    elif k=="min": sd.expand_minimal_spaces(op[1],op[2],op[3])
    elif k=="aseeds": sd.expand_attractor_seeds(op[1])
    elif k=="block": sd.expand_block(find_motif_avoidant_attractors=op[1],size_limit=op[2],optimize_source_nodes=op[3])
    elif k=="scc": sd.expand_scc(op[1])
    elif k=="skiprem": sd.skip_remaining()
    elif k=="reclaim": sd.reclaim_node_data()
    elif k=="pickle": return pickle.loads(pickle.dumps(sd))
    elif k=="build": sd.build()
    return sd
def invariants(net,sd,refsd,mins,atts):
    nodes,edges=refsd
    errs=[]
    import networkx as nx
    spaces={}
    for i in sd.node_ids():
        d=sd.node_data(i); sp=d['space']; k=key(sp)
        if k in spaces: errs.append(("dup",i))
        spaces[k]=i
        succ=list(sd.dag.successors(i))
        if not d['expanded']:
            if succ: errs.append(("stub-with-succ",i))
        else:
            got={key(sd.node_data(j)['space']) for j in succ}
            if d['skipped']:
                exp={key(m) for m in mins if sub(m,sp) }
                # skip nodes: successors must at least keep every minimal trap reachable; accept exact min traps
                if got!=exp: errs.append(("skip-succ",i,got,exp))
            elif k in nodes:
                exp={b for (a,b) in edges if a==k}
                # shortcut nodes (source fast-forward/scc attach) are allowed to differ: only check faithful nodes when got is subset of trap spaces
                if got!=exp: errs.append(("succ-diff",i,sorted(got),sorted(exp)))
            else: errs.append(("node-not-in-ref",i))
        # caches
        inside=set(net.space_states(sp))
        child_sets=[set(net.space_states(sd.node_data(j)['space'])) for j in succ]
        own=[A for A in atts if A<=inside and not any(A<=c for c in child_sets)]
        seeds=d['attractor_seeds']; cands=d['attractor_candidates']; sets=d['attractor_sets']
        if seeds is not None:
            hit=[]
            for s in seeds:
                a=[A for A in own if st(net,s) in A]
                if len(s)!=net.n or not a: errs.append(("seed-bad",i,s)); continue
                hit.append(a[0])
            if len(hit)!=len(set(hit)): errs.append(("seed-dup",i))
            if not d['skipped'] and set(hit)!=set(own): errs.append(("seed-missing",i,seeds,[sorted(a) for a in own]))
        if cands is not None:
            cs={st(net,c) for c in cands}
            if any(not (A&cs) for A in own): errs.append(("cand-uncovered",i))
        if sets is not None and seeds is not None:
            if len(sets)!=len(seeds): errs.append(("sets-len",i))
            else:
                for s,vs in zip(seeds,sets):
                    expl=frozenset(sum(int(v)<<int(kk) for kk,v in m.to_dict().items()) for m in vs.items())
                    if not any(A==expl and st(net,s) in A for A in atts): errs.append(("sets-bad",i))
    # depth
    lp={i:0 for i in sd.node_ids()}
    for u in nx.topological_sort(sd.dag):
        for v in sd.dag.successors(u): lp[v]=max(lp[v],lp[u]+1)
    for i in sd.node_ids():
        if lp[i]!=sd.node_data(i)['depth'] and (i==0 or nx.has_path(sd.dag,0,i)): errs.append(("depth",i)); break
    return errs
def run(args):
    name,rules,depth=args
    from biobalm import SuccessionDiagram
    signal.signal(signal.SIGALRM,_h)
    net=parse_bnet(rules); refsd=sd_reference(net); mins=min_traps(net); atts=net.attractors()
    def build(h):
        sd=SuccessionDiagram.from_rules(rules)
        for op in h: sd=apply(sd,op)
        return sd
    found={}; hist=[()]; total=0
    for d in range(depth):
        nxt=[]
        for h in hist:
            base=build(h)
            for op in list(ops_for(base)):
                total+=1
                signal.alarm(10)
                try:
                    sd=build(h); sd=apply(sd,op)
                    errs=invariants(net,sd,refsd,mins,atts)
                except TO: errs=[("hang",)]
                except Exception as e: errs=[("EXC",type(e).__name__,str(e)[:80])]
                finally: signal.alarm(0)
                for e in errs:
                    sig=(e[0],op[0]) if e[0] not in("EXC",) else (e[0],e[1],e[2],op[0])
                    if sig not in found: found[sig]=(h+(op,),e)
                if not any(e[0] in("hang","EXC") for e in errs): nxt.append(h+(op,))
        hist=nxt
    return name,total,found
NETS={
 "k1":"A, B\nB, A\nC, !C",
 "k2":"a, b\nb, a\nc, a & c & d | b & !c | c & !d\nd, !a | d | c",
 "k4":"S, S\nA, S | B\nB, A",
 "k6":"A, B\nB, A\nC, D\nD, C",
 "k7":"A, B\nB, A\nC, !C & A",
 "kdepth":"A, A | C\nB, A | B\nC, !B | C",
}
if __name__=="__main__":
    depth=int(sys.argv[1])
    from e3 import net_from_index
    NETS["maa"]=net_from_index(3,16555679).bnet()
    t=time.time()
    with Pool(8) as p: R=p.map(run,[(k,v,depth) for k,v in NETS.items()])
    print("time",time.time()-t)
    allsig={}
    for name,total,found in R:
        print(name,total,len(found))
        for sig,(h,e) in found.items(): allsig.setdefault(sig,(name,h,e))
    for sig,(name,h,e) in sorted(allsig.items(),key=str): print(sig,name,h,str(e)[:160])
