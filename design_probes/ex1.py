"""scratch: closure exploration over the plain expansion alphabet"""
import sys, time, itertools, collections
from biobalm import SuccessionDiagram
def canon(sd):
    nodes=[]
    for i in sd.node_ids():
        d=sd.node_data(i)
        def fz(x):
            if x is None: return None
            return tuple(tuple(sorted(s.items())) for s in x)
        nodes.append((tuple(sorted(d['space'].items())),d['expanded'],d['skipped'],d['depth'],d['parent_node'],
            fz(d['attractor_candidates']),fz(d['attractor_seeds']),None if d['attractor_sets'] is None else len(d['attractor_sets']),
            d['percolated_network'] is not None,d['percolated_petri_net'] is not None,d['percolated_nfvs'] is not None))
    edges=tuple((a,b,tuple(sorted(dd['motif'].items())),tuple(tuple(sorted(m.items())) for m in dd['all_motifs'])) for a,b,dd in sd.dag.edges(data=True))
    return (tuple(nodes),edges)
def full_size(rules):
    sd=SuccessionDiagram.from_rules(rules); sd.expand_bfs(); return len(sd), sd.depth(), sd
def ops_for(sd,S,D,targets):
    ids=list(sd.node_ids())
    sizes=[None]+list(range(1,S+1))
    lv=[None]+list(range(0,D+1))
    for n in ids:
        yield ("succ",n)
        for l in lv:
            for s in sizes:
                yield ("bfs",n,l,s); yield ("dfs",n,l,s)
        for s in sizes: yield ("min",n,s)
    for s in sizes:
        yield ("aseeds",s)
        for m in (True,False): yield ("block",m,s)
        for t in targets: yield ("target",t,s)
def apply(sd,op):
    k=op[0]
    if k=="succ": return tuple(sorted(sd.node_successors(op[1],compute=True)))
    if k=="bfs": return sd.expand_bfs(op[1],op[2],op[3])
    if k=="dfs": return sd.expand_dfs(op[1],op[2],op[3])
    if k=="min": return sd.expand_minimal_spaces(op[1],op[2],False)
    if k=="aseeds": return sd.expand_attractor_seeds(op[1])
    if k=="block": return sd.expand_block(find_motif_avoidant_attractors=op[1],size_limit=op[2],optimize_source_nodes=False)
    if k=="target": return sd.expand_to_target(dict(op[1]),op[2])
def build(rules,hist):
    sd=SuccessionDiagram.from_rules(rules)
    for op in hist: apply(sd,op)
    return sd
def explore(rules,max_states=200000):
    S,D,full=full_size(rules)
    targets=[tuple(sorted(full.node_data(i)['space'].items())) for i in full.node_ids() if full.node_data(i)['space']]
    t=time.time()
    seen={canon(build(rules,[])):()}
    frontier=collections.deque([()])
    trans=0
    while frontier:
        h=frontier.popleft()
        base=build(rules,h)
        for op in list(ops_for(base,S,D,targets)):
            sd=build(rules,h); 
            try: apply(sd,op)
            except Exception as e:
                print("EXC",h,op,type(e).__name__,e); continue
            trans+=1
            k=canon(sd)
            if k not in seen:
                seen[k]=h+(op,); frontier.append(h+(op,))
                if len(seen)>max_states: print("cap"); return
    print(f"|SD|={S} depth={D} states={len(seen)} transitions={trans} maxhist={max(len(v) for v in seen.values())} time={time.time()-t:.1f}s")
nets={
 "k1":"A, B\nB, A\nC, !C",
 "k2":"a, b\nb, a\nc, a & c & d | b & !c | c & !d\nd, !a | d | c",
 "k6":"A, B\nB, A\nC, D\nD, C",
 "k4":"S, S\nA, S | B\nB, A",
}
for k in sys.argv[1:]:
    print(k); explore(nets[k])
