import sys, time, types
import biobalm, biobalm.succession_diagram, biobalm._sd_attractors.attractor_symbolic as AS
from biobalm import SuccessionDiagram
mon=sys.monitoring
TOOL=mon.PROFILER_ID
mon.use_tool_id(TOOL,"verif")
counts={}
class Budget(Exception): pass
LIMIT=20000
def on_jump(code, off, dest):
    if dest<off:
        k=(code.co_filename,code.co_name,dest)
        c=counts.get(k,0)+1; counts[k]=c
        if c>LIMIT: raise Budget(f"{code.co_filename}:{code.co_name} dest={dest}")
mon.register_callback(TOOL, mon.events.JUMP, on_jump)
mon.register_callback(TOOL, mon.events.BRANCH, on_jump)
def all_codes(mod):
    seen=set()
    def walk(c):
        if c in seen: return
        seen.add(c)
        for k in c.co_consts:
            if isinstance(k,types.CodeType): walk(k)
    for name,obj in vars(mod).items():
        if isinstance(obj,types.FunctionType) and obj.__module__==mod.__name__: walk(obj.__code__)
        elif isinstance(obj,type) and obj.__module__==mod.__name__:
            for n2,o2 in vars(obj).items():
                f=o2.__func__ if isinstance(o2,(staticmethod,classmethod)) else o2
                if isinstance(f,types.FunctionType): walk(f.__code__)
    return seen
n=0
for mname,mod in list(sys.modules.items()):
    if mname.startswith("biobalm"):
        for c in all_codes(mod):
            mon.set_local_events(TOOL,c,mon.events.JUMP|mon.events.BRANCH); n+=1
print("instrumented",n)
from e3 import net_from_index
net=net_from_index(3,1745577)
sd=SuccessionDiagram.from_rules(net.bnet()); sd.expand_bfs()
t=time.time()
try:
    sd.expanded_attractor_seeds()
except Budget as e:
    print("BUDGET",e,time.time()-t)
top=sorted(counts.items(),key=lambda kv:-kv[1])[:5]
for (f,nm,d),c in top: print(f.split('/')[-1],nm,d,c)
# overhead measure
counts.clear()
t=time.time()
for i in range(100):
    sd=SuccessionDiagram.from_rules("A, B & !C\nB, A | C\nC, !A"); sd.expand_bfs(); sd.expanded_attractor_seeds()
print("with mon",(time.time()-t)/100)
