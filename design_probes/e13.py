from biodivine_aeon import BooleanNetwork, UpdateFunction
from biobalm import SuccessionDiagram
from biobalm.petri_net_translation import sanitize_network_names
bn=BooleanNetwork.from_bnet("A, B & !C\nB, A | C\nC, !A")
for fmt,txt in (("bnet",bn.to_bnet()),("aeon",bn.to_aeon()),("sbml",bn.to_sbml())):
    sd=SuccessionDiagram.from_rules(txt,format=fmt); sd.build(); print(fmt,len(sd),sd.expanded_attractor_seeds())
# nasty names with functions
bn=BooleanNetwork(["a[","a]","a_"])
a,b,c=bn.variables()
for s,t in ((a,b),(b,a),(a,c),(c,c)):
    bn.add_regulation({"source":s,"target":t,"essential":True,"sign":None})
try:
    bn.set_update_function(b, UpdateFunction.mk_var(bn,a))
    bn.set_update_function(a, UpdateFunction.mk_not(UpdateFunction.mk_var(bn,b)))
    bn.set_update_function(c, UpdateFunction.mk_and(UpdateFunction.mk_var(bn,a),UpdateFunction.mk_var(bn,c)))
    print(bn.variable_names(), [str(bn.get_update_function(v)) for v in bn.variables()])
    s=sanitize_network_names(bn); print(s.variable_names(), [str(s.get_update_function(v)) for v in s.variables()])
    sd=SuccessionDiagram(s); sd.build(); print(sd.summary())
except Exception as e: print("ERR",type(e),e)
# forced fallback
cfg=SuccessionDiagram.default_config(); cfg["attractor_candidates_limit"]=1
sd=SuccessionDiagram.from_rules("A, !B\nB, A\nC, A & !C",config=cfg)
try: print(sd.node_attractor_seeds(0,compute=True))
except RuntimeError as e: print("RT",e)
print(sd.node_attractor_seeds(0,compute=True,symbolic_fallback=True))
sets=sd.node_attractor_sets(0,compute=True); print(sets, [sorted(v.to_dict().items(),key=str) for v in sets[0].items()][:3])
