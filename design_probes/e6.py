import sys, signal, traceback
from e3 import net_from_index
from ref import *
from biobalm import SuccessionDiagram
idx=int(sys.argv[1])
net=net_from_index(3,idx)
print(net.bnet()); print("attractors",[sorted(a) for a in net.attractors()]); print("mintraps",min_traps(net))
cfg=SuccessionDiagram.default_config(); cfg['debug']=True
sd=SuccessionDiagram.from_rules(net.bnet(),config=cfg)
sd.expand_bfs()
for i in sd.node_ids():
    d=sd.node_data(i); print(i,d['space'],d['expanded'],list(sd.dag.successors(i)))
signal.signal(signal.SIGALRM,lambda s,f:(_ for _ in ()).throw(Exception("TO")))
signal.alarm(2)
try:
    print(sd.expanded_attractor_seeds())
except Exception as e:
    traceback.print_exc()
