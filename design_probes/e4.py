import signal, traceback, sys
from e3 import *
import e3
class TO(Exception): pass
def h(sig,frm):
    raise TO("timeout at "+ "".join(traceback.format_stack(frm)[-3:])[-400:])
signal.signal(signal.SIGALRM,h)
def work2(args):
    n,idxs,strats=args
    fails=[]
    for idx in idxs:
        net=net_from_index(n,idx)
        for st in strats:
            signal.alarm(5)
            try: check(net,st)
            except BaseException as e:
                fails.append(((st,type(e).__name__,str(e)[:300]),idx))
            finally: signal.alarm(0)
    return fails
if __name__=="__main__":
    n=int(sys.argv[1]); stride=int(sys.argv[2]); off=int(sys.argv[3]); strats=sys.argv[4:]
    total=1<<(n*(1<<n))
    idxs=list(range(off,total,stride))
    chunks=[idxs[i::64] for i in range(64)]
    t=time.time()
    with Pool(16) as p:
        res=p.map(work2,[(n,c,strats) for c in chunks])
    fails={}
    for r in res:
        for k,idx in r: fails.setdefault(k,[]).append(idx)
    print(len(idxs),time.time()-t)
    for k,v in sorted(fails.items()):
        print(k,len(v),v[:5])
