import hashlib, json
from biobalm import SuccessionDiagram
from biobalm.control import succession_control
rules="S, S\nA, S | B\nB, A\nC, A | D\nD, C\nE, false"
out=[]
for strat in ("build","expand_bfs","expand_scc","expand_block"):
    sd=SuccessionDiagram.from_rules(rules); getattr(sd,strat)()
    for i in sd.node_ids(): sd.node_attractor_seeds(i,compute=True)
    out.append([(i,sorted(sd.node_data(i)['space'].items()),sd.node_data(i)['depth'],sd.node_data(i)['expanded'],[sorted(s.items()) for s in sd.node_data(i)['attractor_seeds']]) for i in sd.node_ids()])
    out.append([(a,b,sorted(d['motif'].items()),[sorted(m.items()) for m in d['all_motifs']]) for a,b,d in sd.dag.edges(data=True)])
for strategy in ("internal","all"):
    sd=SuccessionDiagram.from_rules(rules)
    ivs=succession_control(sd,{"S":0,"E":0,"A":0,"B":0,"C":1,"D":1},strategy=strategy)
    out.append([repr(i) for i in ivs])
print(hashlib.sha1(json.dumps(out).encode()).hexdigest())
