import sys
from e3 import net_from_index
from ref import *
from biobalm import SuccessionDiagram
idx=int(sys.argv[1]); net=net_from_index(3,idx)
print(net.bnet()); print("atts",[sorted(a) for a in net.attractors()],"mintraps",min_traps(net))
for thr in (1000,0,1,2):
  for nf in (2000,0):
    cfg=SuccessionDiagram.default_config(); cfg['retained_set_optimization_threshold']=thr; cfg['nfvs_size_threshold']=nf; cfg['debug']=bool(len(sys.argv)>2 and thr==int(sys.argv[2]) and nf==2000)
    sd=SuccessionDiagram.from_rules(net.bnet(),config=cfg)
    print(thr,nf,"nfvs",sd.node_percolated_nfvs(0,compute=True),"cands",sd.node_attractor_candidates(0,compute=True))
