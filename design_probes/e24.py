import sys, json, time
from multiprocessing import Pool
import e4
from e4 import work2
if __name__=="__main__":
    step=int(sys.argv[1]); strats=sys.argv[2:]
    idxs=json.load(open('maa3.json'))[::step]
    t=time.time()
    with Pool(16) as p: res=p.map(work2,[(3,idxs[i::64],strats) for i in range(64)])
    fails={}
    for r in res:
        for k,idx in r: fails.setdefault(k,[]).append(idx)
    print(len(idxs),time.time()-t)
    for k,v in sorted(fails.items()): print(str(k)[:300],len(v),v[:5])
