import sys
from e3 import net_from_index
from ref import *
from biobalm import SuccessionDiagram
for idx in map(int,sys.argv[1:]):
    net=net_from_index(3,idx)
    print("IDX",idx); print(net.bnet())
    print("attractors",[sorted(a) for a in net.attractors()])
    print("mintraps",min_traps(net))
    sd=SuccessionDiagram.from_rules(net.bnet())
    print(sd.network.to_bnet())
    sd.expand_bfs()
    for i in sd.node_ids():
        d=sd.node_data(i)
        print(i,d['space'],d['expanded'],list(sd.dag.successors(i)))
        print("   nfvs",sd.node_percolated_nfvs(i,compute=True))
        try:
            print("   cands",sd.node_attractor_candidates(i,compute=True))
        except Exception as e: print("  EXC",e)
