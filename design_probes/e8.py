from biobalm import SuccessionDiagram
import networkx as nx
# C14 probe: query seeds on stub, then skip
rules="A, B\nB, A\nC, !C"
sd=SuccessionDiagram.from_rules(rules)
print("root seeds as stub:",sd.node_attractor_seeds(0,compute=True))
sd.skip_to_minimal(0)
print("after skip_to_minimal root seeds cached:",sd.node_attractor_seeds(0,compute=False), "succ",sd.node_successors(0))
sd=SuccessionDiagram.from_rules(rules)
sd.node_attractor_seeds(0,compute=True); sd.skip_remaining()
print("after skip_remaining root seeds cached:",sd.node_attractor_seeds(0,compute=False), "succ",sd.node_successors(0))
sd=SuccessionDiagram.from_rules(rules)
sd.node_attractor_seeds(0,compute=True); sd.expand_scc()
print("after scc root seeds cached:",sd.node_attractor_seeds(0,compute=False), "succ",sd.node_successors(0))
sd=SuccessionDiagram.from_rules(rules)
sd.node_attractor_seeds(0,compute=True); sd.expand_block()
print("after block root seeds cached:",sd.node_attractor_seeds(0,compute=False), "succ",sd.node_successors(0))
# C15 probe: bfs size limit on full diagram
sd=SuccessionDiagram.from_rules(rules); print(sd.expand_bfs(), len(sd)); print("bfs size_limit=len:",sd.expand_bfs(size_limit=len(sd)), "dfs:",sd.expand_dfs(size_limit=len(sd)), "min:", sd.expand_minimal_spaces(size_limit=len(sd)))
# C20 depth probe
def depth_ok(sd):
    bad=[]
    for i in sd.node_ids():
        lp=max((len(p)-1 for p in nx.all_simple_paths(sd.dag,0,i)),default=0) if i!=0 else 0
        if lp!=sd.node_data(i)['depth']: bad.append((i,lp,sd.node_data(i)['depth']))
    return bad
# M1={A=1}->perc {A=1,B=1}; M2={B=1}; plus deeper structure under AB
rules2="A, A | (B & C & !C)\nB, B | A\nC, C & A & B\n"
for strat in ("expand_bfs","expand_dfs"):
    sd=SuccessionDiagram.from_rules(rules2); getattr(sd,strat)()
    print(strat,[(i,sd.node_data(i)['space'],sd.node_data(i)['depth']) for i in sd.node_ids()], list(sd.dag.edges), depth_ok(sd))
