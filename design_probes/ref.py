"""Scratch reference model: explicit-state async STG for tiny Boolean networks."""
import itertools
class Net:
    def __init__(self, names, tables):
        # tables[i]: tuple of 2^n bits, index = sum(state[j] << j)
        self.names=list(names); self.n=len(names); self.tables=tables
    def f(self,i,s): return self.tables[i][s]
    def succ(self,s):
        out=[]
        for i in range(self.n):
            b=(s>>i)&1
            if self.tables[i][s]!=b: out.append(s^(1<<i))
        return out
    def states(self): return range(1<<self.n)
    def bnet(self):
        lines=[]
        for i,nm in enumerate(self.names):
            lines.append(f"{nm}, {self.expr(i)}")
        return "\n".join(lines)
    def expr(self,i):
        t=self.tables[i]
        if all(t): return "true"
        if not any(t): return "false"
        terms=[]
        for s in self.states():
            if t[s]:
                lits=[(self.names[j] if (s>>j)&1 else "!"+self.names[j]) for j in range(self.n)]
                terms.append("("+" & ".join(lits)+")")
        return " | ".join(terms)
    def attractors(self):
        # terminal SCCs via Tarjan
        idx={};low={};st=[];on=set();res=[];c=[0]
        import sys
        sys.setrecursionlimit(10000)
        comp={}
        def sc(v):
            idx[v]=low[v]=c[0];c[0]+=1;st.append(v);on.add(v)
            for w in self.succ(v):
                if w not in idx:
                    sc(w);low[v]=min(low[v],low[w])
                elif w in on: low[v]=min(low[v],idx[w])
            if low[v]==idx[v]:
                C=set()
                while True:
                    w=st.pop();on.discard(w);C.add(w)
                    if w==v:break
                for w in C: comp[w]=len(res)
                res.append(C)
        for v in self.states():
            if v not in idx: sc(v)
        out=[]
        for C in res:
            if all(w in C for v in C for w in self.succ(v)): out.append(frozenset(C))
        return out
    def space_states(self,sp):
        # sp: dict name->0/1
        fixed=[(self.names.index(k),v) for k,v in sp.items()]
        return [s for s in self.states() if all(((s>>i)&1)==v for i,v in fixed)]
    def is_trap(self,sp):
        S=set(self.space_states(sp))
        return all(w in S for v in S for w in self.succ(v))
    def all_spaces(self):
        for vals in itertools.product([None,0,1],repeat=self.n):
            yield {self.names[i]:v for i,v in enumerate(vals) if v is not None}
    def trap_spaces(self):
        return [sp for sp in self.all_spaces() if self.is_trap(sp)]
    def percolate(self,sp):
        sp=dict(sp)
        while True:
            S=self.space_states(sp); ch=False
            for i,nm in enumerate(self.names):
                if nm in sp: continue
                vals={self.tables[i][s] for s in S}
                if len(vals)==1:
                    sp[nm]=vals.pop(); ch=True; break
            if not ch: return sp
def sub(x,y): return all(k in x and x[k]==v for k,v in y.items())
def key(sp): return tuple(sorted(sp.items()))
def min_traps(net):
    T=net.trap_spaces()
    return [t for t in T if not any(u!=t and sub(u,t) for u in T)]
def sd_reference(net):
    """ground truth SD: nodes = percolated trap spaces reachable; root=perc({}); successors = perc of maximal trap spaces strictly inside node
    (at root: those fixing every source var)."""
    T=net.trap_spaces()
    sources=[nm for i,nm in enumerate(net.names) if all(net.tables[i][s]==((s>>i)&1) for s in net.states())]
    root=net.percolate({})
    nodes={key(root):root}; edges={}
    todo=[root]
    while todo:
        x=todo.pop()
        inside=[t for t in T if sub(t,x) and t!=x]
        if key(x)==key(root):
            inside=[t for t in inside if all(s in t for s in sources)]
        mx=[t for t in inside if not any(u!=t and sub(t,u) for u in inside)]
        for m in mx:
            c=net.percolate(m)
            if key(c) not in nodes:
                nodes[key(c)]=c; todo.append(c)
            edges.setdefault((key(x),key(c)),[]).append(m)
    return nodes,edges
