import e20, sys, json, time, collections
from multiprocessing import Pool
from cat3 import canon
from e15 import fs38
if __name__=="__main__":
    fs=fs38()
    idxs=[a|(b<<8)|(c<<16) for a in fs for b in fs for c in fs if canon((a,b,c))][::int(sys.argv[1])]
    idxs+=json.load(open('maa3.json'))[::int(sys.argv[2])]
    with Pool(16) as p: R=p.map(e20.work,[idxs[i::64] for i in range(64)])
    bad=[x for r in R for x in r]
    print(len(idxs),len(bad))
    c=collections.Counter()
    for b in bad:
        if b[1]=="uncovered":
            g=b[2]; c[(g['retained_set_optimization_threshold'],g['attractor_candidates_limit'],g['minimum_simulation_budget'],g['nfvs_size_threshold'],b[3],b[4],b[5])]+=1
        else: c[b[1]]+=1
    byl=collections.Counter(); 
    for k,v in c.items():
        if isinstance(k,tuple): byl[("limit",k[1])]+=v
    print(byl)
    nz=[(k,v) for k,v in c.items() if not (isinstance(k,tuple) and k[1]==0)]
    print(len(nz)); print(nz[:40])
