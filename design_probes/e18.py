import sys, time, signal, json
from multiprocessing import Pool
from cat3 import canon
from e15 import fs38
class TO(Exception): pass
def h(s,f): raise TO()
def work(idxs):
    from e3 import net_from_index
    from ref import key
    from biobalm import SuccessionDiagram
    from biobalm._sd_attractors.attractor_symbolic import symbolic_attractor_fallback
    signal.signal(signal.SIGALRM,h)
    out=[]
    for idx in idxs:
        net=net_from_index(3,idx); atts=net.attractors()
        def st(d): return sum(d[nm]<<i for i,nm in enumerate(net.names))
        signal.alarm(5)
        try:
            sd=SuccessionDiagram.from_rules(net.bnet()); sd.expand_bfs()
            for i in sd.node_ids():
                seeds=sd.node_attractor_seeds(i,compute=True)
                sets=sd.node_attractor_sets(i,compute=True)
                if len(seeds)!=len(sets): out.append((idx,"len",i)); continue
                for s,vs in zip(seeds,sets):
                    expl=frozenset(sum(int(v)<<int(k) for k,v in m.to_dict().items()) for m in vs.items())
                    A=[a for a in atts if st(s) in a]
                    if not A or A[0]!=expl: out.append((idx,"set",i,sorted(expl),[sorted(a) for a in A]))
                fs,fsets=symbolic_attractor_fallback(sd,i)
                fa=sorted(sorted(a) for a in atts if any(st(s) in a for s in fs))
                da=sorted(sorted(a) for a in atts if any(st(s) in a for s in seeds))
                if fa!=da or len(fs)!=len(seeds): out.append((idx,"fallback",i,fs,seeds))
        except TO: out.append((idx,"hang"))
        except Exception as e: out.append((idx,"EXC",type(e).__name__,str(e)[:100]))
        finally: signal.alarm(0)
    return out
if __name__=="__main__":
    fs=fs38()
    idxs=[a|(b<<8)|(c<<16) for a in fs for b in fs for c in fs if canon((a,b,c))]
    idxs+=json.load(open('maa3.json'))[::40]
    t=time.time()
    with Pool(16) as p: R=p.map(work,[idxs[i::64] for i in range(64)])
    bad=[x for r in R for x in r]
    print(len(idxs),len(bad),time.time()-t)
    kinds={}
    for b in bad: kinds.setdefault(b[1],[]).append(b)
    for k,v in kinds.items(): print(k,len(v),str(v[:3])[:500])
