import itertools, sys, time, traceback, os
from ref import *
from e2 import check
from multiprocessing import Pool
def net_from_index(n, idx):
    names=[chr(65+i) for i in range(n)]
    m=1<<n
    tabs=[]
    for i in range(n):
        t=idx & ((1<<m)-1); idx >>= m
        tabs.append(tuple((t>>s)&1 for s in range(m)))
    return Net(names,tuple(tabs))
def work(args):
    n,idxs,strats=args
    fails=[]
    for idx in idxs:
        net=net_from_index(n,idx)
        for st in strats:
            try: check(net,st)
            except BaseException as e:
                fails.append(((st,type(e).__name__,str(e)[:80]),idx))
    return fails
if __name__=="__main__":
    n=int(sys.argv[1]); stride=int(sys.argv[2]); off=int(sys.argv[3]); strats=sys.argv[4:]
    total=1<<(n*(1<<n))
    idxs=list(range(off,total,stride))
    chunks=[idxs[i::64] for i in range(64)]
    t=time.time()
    with Pool(16) as p:
        res=p.map(work,[(n,c,strats) for c in chunks])
    fails={}
    for r in res:
        for k,idx in r: fails.setdefault(k,[]).append(idx)
    print(len(idxs),time.time()-t)
    for k,v in sorted(fails.items()):
        print(k,len(v),v[:5])
