import itertools, sys
from ref import *
from e3 import net_from_index
from biodivine_aeon import BooleanNetwork, AsynchronousGraph
from biobalm.trappist_core import trappist, compute_fixed_point_reduced_STG
from biobalm.petri_net_translation import network_to_petrinet, restrict_petrinet_to_subspace
from biobalm.space_utils import percolate_space, percolate_space_strict, percolation_conflicts
n=int(sys.argv[1]); stride=int(sys.argv[2])
def spaces(net): return list(net.all_spaces())
def closed(net,S,rev=False):
    if not rev: return all(w in S for v in S for w in net.succ(v))
    return all((v in S) for v in net.states() for w in net.succ(v) if w in S)
fails={}
def fail(k,net,*info):
    fails.setdefault(k,[]).append((net.bnet(),info))
total=1<<(n*(1<<n))
cnt=0
for idx in range(0,total,stride):
    net=net_from_index(n,idx); cnt+=1
    bn=BooleanNetwork.from_bnet(net.bnet()).infer_valid_graph(); g=AsynchronousGraph(bn); pn=network_to_petrinet(bn)
    SP=spaces(net)
    sources=[nm for i,nm in enumerate(net.names) if all(net.tables[i][s]==((s>>i)&1) for s in net.states())]
    # C11 percolate
    for sp in SP:
        got=percolate_space(g,sp); exp=net.percolate(sp)
        if got!=exp: fail("perc",net,sp,got,exp)
        # strict
        exp_s={}
        for i,nm in enumerate(net.names):
            if len(set(net.tables[i]))==1: continue
            vals={net.tables[i][s] for s in net.space_states(exp_closure)} if False else None
        # closure from given values alone, ignoring constants-fn variables
        cl=dict(sp)
        ch=True
        while ch:
            ch=False
            for i,nm in enumerate(net.names):
                if len(set(net.tables[i]))==1 or nm in cl: continue
                vs={net.tables[i][s] for s in net.space_states(cl)}
                if len(vs)==1: cl[nm]=vs.pop(); ch=True
        for i,nm in enumerate(net.names):
            if len(set(net.tables[i]))==1: continue
            vs={net.tables[i][s] for s in net.space_states(cl)}
            if len(vs)==1:
                c=vs.pop()
                if nm not in sp or sp[nm]==c: exp_s[nm]=c
        got_s=percolate_space_strict(g,sp)
        if got_s!=exp_s: fail("strict",net,sp,got_s,exp_s)
    # C09
    for rev in (False,True):
        T=[sp for sp in SP if closed(net,set(net.space_states(sp)),rev)]
        for ens in SP:
            for avoid in [[]]+[[a] for a in SP]:
                cand=[t for t in T if sub(t,ens) and not any(sub(t,a) for a in avoid)]
                exp_min=[t for t in cand if not any(u!=t and sub(u,t) for u in cand)]
                got=trappist(pn,problem="min",reverse_time=rev,ensure_subspace=ens,avoid_subspaces=avoid)
                if sorted(map(key,got))!=sorted(map(key,exp_min)): fail(f"min rev={rev}",net,ens,avoid,got,exp_min)
                if len(ens)<net.n:
                    for osv in (None,[]):
                        src = sources if osv is None else []
                        c2=[t for t in cand if len(t)>len(ens) and all(s in t for s in src)]
                        exp_max=[t for t in c2 if not any(u!=t and sub(t,u) for u in c2)]
                        got=trappist(pn,problem="max",reverse_time=rev,ensure_subspace=ens,avoid_subspaces=avoid,optimize_source_variables=osv)
                        if sorted(map(key,got))!=sorted(map(key,exp_max)): fail(f"max rev={rev} osv={osv}",net,ens,avoid,got,exp_max)
                exp_fix=[t for t in cand if len(t)==net.n]
                got=trappist(pn,problem="fix",reverse_time=rev,ensure_subspace=ens,avoid_subspaces=avoid)
                if sorted(map(key,got))!=sorted(map(key,exp_fix)): fail(f"fix rev={rev}",net,ens,avoid,got,exp_fix)
    # reduced STG
    for ret in SP:
        for ens in SP:
            for avoid in [[]]+[[a] for a in SP]:
                exp=[]
                for s in net.states():
                    sd_={net.names[i]:(s>>i)&1 for i in range(net.n)}
                    if not sub(sd_,ens) or any(sub(sd_,a) for a in avoid): continue
                    ok=True
                    for i,nm in enumerate(net.names):
                        b=(s>>i)&1
                        if net.tables[i][s]!=b and not (nm in ret and ret[nm]==b): ok=False
                    if ok: exp.append(sd_)
                got=compute_fixed_point_reduced_STG(pn,ret,ensure_subspace=ens,avoid_subspaces=avoid)
                if sorted(map(key,got))!=sorted(map(key,exp)): fail("redSTG",net,ret,ens,avoid,got,exp)
    # C10 petri net
    for s in net.states():
        for i,nm in enumerate(net.names):
            for up in (True,False):
                en=False
                for t,d in pn.nodes(data=True):
                    if d.get('kind')=='transition' and d['change']==nm and d['direction']==('up' if up else 'down'):
                        pre=list(pn.predecessors(t))
                        if all(((s>>net.names.index(p[3:]))&1)==(1 if p.startswith('b1_') else 0) for p in pre): en=True
                b=(s>>i)&1
                exp=(b==0 and net.tables[i][s]==1) if up else (b==1 and net.tables[i][s]==0)
                if en!=exp: fail("pn",net,s,nm,up)
print(cnt)
for k,v in fails.items(): print(k,len(v),v[0])
