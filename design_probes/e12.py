import itertools
from cat3 import canon
# functions of <=2 inputs on 3 vars: truth tables over 8 states (bit s)
def tt(f): return sum(f((s&1),(s>>1)&1,(s>>2)&1)<<s for s in range(8))
fs=set()
for t in range(256):
    # depends on var i?
    deps=[any(((t>>s)&1)!=((t>>(s^(1<<i)))&1) for s in range(8)) for i in range(3)]
    if sum(deps)<=2: fs.add(t)
print(len(fs))
fs=sorted(fs)
c=sum(1 for a in fs for b in fs for d in fs if canon((a,b,d)))
print("F3",len(fs)**3,"canonical",c)
# U2 canonical under swap
def tt2perm(t): # swap vars in 2-var table (4 states)
    r=0
    for s in range(4):
        if (t>>s)&1: r|=1<<(((s&1)<<1)|(s>>1))
    return r
cnt=0
for a in range(16):
    for b in range(16):
        me=a|(b<<4); o=tt2perm(b)|(tt2perm(a)<<4)
        if me<=o: cnt+=1
print("U2 canonical",cnt)
