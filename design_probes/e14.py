import os, time
from biodivine_aeon import BooleanNetwork
from biobalm.petri_net_translation import network_to_petrinet
t0=time.time(); tot_tr=0; tot_f=0; big=0; work=0
D="/repo/models/bbm-bnet-inputs-true"
slow=[]
for f in sorted(os.listdir(D)):
    if not f.endswith(".bnet"): continue
    bn=BooleanNetwork.from_file(f"{D}/{f}").infer_valid_graph()
    t=time.time(); pn=network_to_petrinet(bn); dt=time.time()-t
    if dt>2: slow.append((f,round(dt,1),bn.variable_count()))
    ntr=sum(1 for _,d in pn.nodes(data=True) if d.get('kind')=='transition'); tot_tr+=ntr
    for v in bn.variables():
        k=len(bn.predecessors(v)); tot_f+=1
        if k>12: big+=1
        else:
            work+= (1<<(k+1))
print("time",time.time()-t0,"transitions",tot_tr,"functions",tot_f,"support>12:",big,"valuations to enumerate",work, "slow",slow)
