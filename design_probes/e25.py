"""scratch: C05/C03 skip completion probe"""
import sys, time, signal, json, itertools
from multiprocessing import Pool
from cat3 import canon
from e15 import fs38
from ref import *
class TO(Exception): pass
def h(s,f): raise TO()
def union(n1,n2):
    # disjoint union of two Nets
    names=n1.names+[x.lower()+"2" for x in n2.names]; n=len(names); tabs=[]
    for i in range(n1.n): tabs.append(tuple(n1.tables[i][s&((1<<n1.n)-1)] for s in range(1<<n)))
    for i in range(n2.n): tabs.append(tuple(n2.tables[i][s>>n1.n] for s in range(1<<n)))
    return Net(names,tuple(tabs))
def check_net(net):
    from biobalm import SuccessionDiagram
    out=[]
    atts=net.attractors(); mins=min_traps(net)
    has_maa=any(not any(A<=set(net.space_states(m)) for m in mins) for A in atts)
    def st(d): return sum(d[nm]<<i for i,nm in enumerate(net.names))
    rules=net.bnet()
    for strat in ("bfs","dfs","min","block","aseeds","minskip"):
        for lim in (1,2,3,5):
            for route in ("skiprem","skipeach"):
                for order in ("asc","desc"):
                    signal.alarm(10)
                    try:
                        sd=SuccessionDiagram.from_rules(rules)
                        if strat=="bfs": sd.expand_bfs(size_limit=lim)
                        elif strat=="dfs": sd.expand_dfs(size_limit=lim)
                        elif strat=="min": sd.expand_minimal_spaces(size_limit=lim)
                        elif strat=="minskip": sd.expand_minimal_spaces(size_limit=lim,skip_ignored=True)
                        elif strat=="block": sd.expand_block(size_limit=lim)
                        elif strat=="aseeds": sd.expand_attractor_seeds(size_limit=lim)
                        if route=="skiprem": sd.skip_remaining()
                        else:
                            for i in list(sd.stub_ids()): sd.skip_to_minimal(i)
                            while list(sd.stub_ids()):
                                for i in list(sd.stub_ids()): sd.skip_to_minimal(i)
                        mt=sorted(key(sd.node_data(i)['space']) for i in sd.minimal_trap_spaces())
                        if mt!=sorted(key(m) for m in mins): out.append(("mintraps",strat,lim,route))
                        ids=list(sd.node_ids())
                        if order=="desc": ids=ids[::-1]
                        hits=[]
                        for i in ids:
                            sp=sd.node_data(i)['space']; inside=set(net.space_states(sp))
                            for s in sd.node_attractor_seeds(i,compute=True):
                                a=[A for A in atts if st(s) in A]
                                if not a or not a[0]<=inside: out.append(("seed-bad",strat,lim,route,order,i)); continue
                                hits.append(a[0])
                        if set(hits)!=set(atts): out.append(("missing",strat,lim,route,order))
                        if not has_maa and len(hits)!=len(set(hits)): out.append(("dup-noMAA",strat,lim,route,order))
                    except TO: out.append(("hang",strat,lim,route,order))
                    except Exception as e: out.append(("EXC",type(e).__name__,str(e)[:80],strat,lim,route,order))
                    finally: signal.alarm(0)
    return out
def work(items):
    from e3 import net_from_index
    signal.signal(signal.SIGALRM,h)
    res=[]
    sw=Net(["X","Y"],((0,0,1,1),(0,1,0,1)))  # X'=Y, Y'=X : tables index s = X + 2Y ; X'=Y -> (s>>1)&1 ; Y'=X -> s&1
    for kind,idx in items:
        net=net_from_index(3,idx)
        if kind=="u": net=union(net,sw)
        e=check_net(net)
        if e: res.append((kind,idx,e[:3]))
    return res
if __name__=="__main__":
    fs=fs38()
    f3=[a|(b<<8)|(c<<16) for a in fs for b in fs for c in fs if canon((a,b,c))][::int(sys.argv[1])]
    maa=json.load(open('maa3.json'))
    items=[("p",i) for i in f3]+[("p",i) for i in maa[::int(sys.argv[2])]]+[("u",i) for i in maa[::int(sys.argv[3])]]
    t=time.time()
    with Pool(16) as p: R=p.map(work,[items[i::64] for i in range(64)])
    bad=[x for r in R for x in r]
    print(len(items),len(bad),time.time()-t)
    kinds={}
    for k,idx,e in bad: kinds.setdefault((k,e[0][0]),[]).append((idx,e[0]))
    for k,v in kinds.items(): print(k,len(v),str(v[:3])[:400])
