"""scratch: control oracle (C06/C07) on U2 and strided F3"""
import itertools, sys, time
from multiprocessing import Pool
from ref import *
from e3 import net_from_index
def tables_override(net, D):
    tabs=list(net.tables)
    for nm,v in D.items():
        i=net.names.index(nm); tabs[i]=tuple([v]*(1<<net.n))
    return Net(net.names,tuple(tabs))
def attractors_within(net,S):
    S=set(S); out=[]
    for A in net.attractors():
        if A<=S: out.append(A)
    return out
def consistent(a,b): return all(a[k]==b[k] for k in a if k in b)
def ref_successions(net,target):
    nodes,edges=sd_reference(net)
    mins=min_traps(net)
    root=key(net.percolate({}))
    # target expansion
    expanded=set(); seen={root}; level=[root]
    while level:
        nxt=[]
        for k in level:
            sp=nodes[k]
            if not consistent(sp,target): continue
            if sub(sp,target) and sp!=target: continue
            expanded.add(k)
            for (a,b) in edges:
                if a==k and b not in seen: seen.add(b); nxt.append(b)
        level=nxt
    E={(a,b):m for (a,b),m in edges.items() if a in expanded}
    V=seen
    def cold(k):
        sp=nodes[k]
        return all(sub(m,target) for m in mins if sub(m,sp))
    # hmm: need code-equivalent: node consistent with target too
    def ok(k): return cold(k)
    ends=[]
    for k in V:
        if not ok(k): continue
        preds=[a for (a,b) in E if b==k]
        if not any(not ok(p) for p in preds): continue
        ends.append(k)
    found_valid=any(ok(k) for k in V)
    succs=[]
    def paths(cur,goal,vis):
        if cur==goal: yield []; return
        for (a,b) in E:
            if a==cur and b not in vis:
                for p in paths(b,goal,vis|{b}): yield [(a,b)]+p
    for e in ends:
        for p in paths(root,e,{root}):
            lists=[[{k:v for k,v in m.items() if k not in nodes[a]} for m in E[(a,b)]] for (a,b) in p]
            for combo in itertools.product(*lists): succs.append(list(combo))
    if found_valid and not succs: succs=[[]]
    return succs
def ref_drivers(net,motif,assume,strategy,maxd,forbidden):
    inner={k:v for k,v in motif.items() if k not in assume}
    pool=sorted((set(inner) if strategy=="internal" else set(net.names))-set(forbidden))
    if maxd is None: maxd=len(inner)
    res=[]; minimal=[]
    for size in range(maxd+1):
        for V in itertools.combinations(pool,size):
            if any(set(m)<=set(V) for m in minimal): continue
            works=[]
            vals_iter=[tuple(inner[v] for v in V)] if strategy=="internal" else itertools.product([0,1],repeat=size)
            for vals in vals_iter:
                d=dict(zip(V,vals)); sp=dict(d); sp.update(assume)
                l=net.percolate(sp)
                if all(l.get(k)==v for k,v in motif.items()): works.append(d)
            if works: minimal.append(V); res+=works
    return res
def check(net):
    from biobalm import SuccessionDiagram
    from biobalm.control import succession_control, successions_to_target
    errs=[]
    mins=min_traps(net)
    for target in net.all_spaces():
        if not target: continue
        sd=SuccessionDiagram.from_rules(net.bnet())
        got=successions_to_target(sd,target)
        exp=ref_successions(net,target)
        c=lambda L: sorted(tuple(key(m) for m in s) for s in L)
        if c(got)!=c(exp): errs.append(("succ",target,got,exp)); continue
        for strategy in ("internal","all"):
            for maxd in (None,0,1,2):
                for forb in ([],[net.names[0]],[net.names[-1]]):
                    sd=SuccessionDiagram.from_rules(net.bnet())
                    ivs=succession_control(sd,target,strategy=strategy,max_drivers_per_succession_node=maxd,forbidden_drivers=set(forb),successful_only=False)
                    if c([i.succession for i in ivs])!=c(exp): errs.append(("succ2",target,strategy)); continue
                    for iv in ivs:
                        assume={}; T=net.percolate({})
                        for m,ctrl in zip(iv.succession,iv.control):
                            e=ref_drivers(net,m,assume,strategy,maxd,forb)
                            kk=lambda L: sorted(key(d) for d in L)
                            if kk(ctrl)!=kk(e): errs.append(("drivers",target,strategy,maxd,forb,m,ctrl,e))
                            # soundness C06
                            for D in ctrl:
                                ov=tables_override(net,D)
                                for A in attractors_within(ov,ov.space_states(T)):
                                    for s in A:
                                        if not all(((s>>net.names.index(k))&1)==v for k,v in m.items()):
                                            errs.append(("unsound",target,strategy,m,D)); break
                            sp=dict(m); sp.update(assume); assume=net.percolate(sp); T=assume
                            if not net.is_trap(T): errs.append(("nottrap",target,T))
                        if iv.successful != all(len(c_)>0 for c_ in iv.control): errs.append(("flag",))
                        if iv.successful:
                            if not consistent(T,target): errs.append(("final-inconsistent",target,T))
                            if not all(sub(mn,target) for mn in mins if sub(mn,T)): errs.append(("final-min",target,T))
    return errs
def work(args):
    n,idxs=args; out=[]
    for idx in idxs:
        net=net_from_index(n,idx)
        try: e=check(net)
        except Exception as ex: e=[("EXC",type(ex).__name__,str(ex)[:200])]
        if e: out.append((idx,e[:2]))
    return out
if __name__=="__main__":
    n=int(sys.argv[1]); stride=int(sys.argv[2])
    total=1<<(n*(1<<n)); idxs=list(range(0,total,stride))
    t=time.time()
    with Pool(16) as p: R=p.map(work,[(n,idxs[i::64]) for i in range(64)])
    bad=[x for r in R for x in r]
    print(len(idxs),len(bad),time.time()-t)
    kinds={}
    for idx,e in bad: kinds.setdefault(e[0][0],[]).append(idx)
    for k,v in kinds.items(): print(k,len(v),v[:6])
    for idx,e in bad[:4]: print(idx,str(e)[:600])
