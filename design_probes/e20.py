"""scratch: C08 candidates cover attractors under option/limit grid"""
import sys, time, signal, json, itertools
from multiprocessing import Pool
from cat3 import canon
from e15 import fs38
class TO(Exception): pass
def h(s,f): raise TO()
GRID=[dict(retained_set_optimization_threshold=a,attractor_candidates_limit=b,minimum_simulation_budget=c,nfvs_size_threshold=d)
      for a in (0,1,2,1000) for b in (0,1,2,3,100000) for c in (0,1000) for d in (0,2000)]
def work(idxs):
    from e3 import net_from_index
    from ref import sub
    from biobalm import SuccessionDiagram
    signal.signal(signal.SIGALRM,h)
    out=[]
    for idx in idxs:
        net=net_from_index(3,idx); atts=net.attractors()
        def st(d): return sum(d[nm]<<i for i,nm in enumerate(net.names))
        for g in GRID:
          for expand in (False,True):
            for greedy in (True,False):
              for sim in (True,False):
                cfg=SuccessionDiagram.default_config(); cfg.update(g)
                signal.alarm(5)
                try:
                    sd=SuccessionDiagram.from_rules(net.bnet(),config=cfg)
                    if expand: sd.expand_bfs()
                    for i in sd.node_ids():
                        sp=sd.node_data(i)['space']
                        try: c=sd.node_attractor_candidates(i,compute=True,greedy_asp_minification=greedy,simulation_minification=sim)
                        except RuntimeError: continue
                        succ=[sd.node_data(j)['space'] for j in sd.dag.successors(i)]
                        cs={st(x) for x in c}
                        if any(len(x)!=net.n or not sub(x,sp) for x in c): out.append((idx,"notfull",g,expand,greedy,sim,i)); continue
                        inside=set(net.space_states(sp))
                        for A in atts:
                            if not A<=inside: continue
                            if any(A<=set(net.space_states(s_)) for s_ in succ): continue
                            if not (A&cs): out.append((idx,"uncovered",g,expand,greedy,sim,i,c,sorted(A)))
                except TO: out.append((idx,"hang",g,expand,greedy,sim))
                except Exception as e: out.append((idx,"EXC",type(e).__name__,str(e)[:100],g,expand,greedy,sim))
                finally: signal.alarm(0)
    return out
if __name__=="__main__":
    which=sys.argv[1]
    if which=="u2":
        n=2
    fs=fs38()
    idxs=[a|(b<<8)|(c<<16) for a in fs for b in fs for c in fs if canon((a,b,c))][::int(sys.argv[2])]
    idxs+=json.load(open('maa3.json'))[::int(sys.argv[3])]
    t=time.time()
    with Pool(16) as p: R=p.map(work,[idxs[i::64] for i in range(64)])
    bad=[x for r in R for x in r]
    print(len(idxs),len(bad),time.time()-t)
    kinds={}
    for b in bad: kinds.setdefault(b[1],[]).append(b)
    for k,v in kinds.items(): print(k,len(v),len({b[0] for b in v}),str(v[:2])[:700])
