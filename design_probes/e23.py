import e20, sys, json
from cat3 import canon
from e15 import fs38
e20.GRID=[dict(retained_set_optimization_threshold=1,attractor_candidates_limit=100000,minimum_simulation_budget=1000,nfvs_size_threshold=2000)]
fs=fs38()
idxs=[a|(b<<8)|(c<<16) for a in fs for b in fs for c in fs if canon((a,b,c))][::20]
idxs+=json.load(open('maa3.json'))[::2000]
bad=e20.work(idxs)
seen=set()
for b in bad:
    if b[0] in seen: continue
    seen.add(b[0]); print(b)
    if len(seen)>5: break
