import itertools, sys, time
from multiprocessing import Pool
N=3; NS=8
SUB=[]  # subspace masks
for vals in itertools.product([None,0,1],repeat=3):
    m=0
    for s in range(8):
        if all(v is None or ((s>>i)&1)==v for i,v in enumerate(vals)): m|=1<<s
    SUB.append(m)
PERMS=list(itertools.permutations(range(3)))
def perm_state(s,p): # new state where new var p[i] = old var i
    r=0
    for i in range(3):
        if (s>>i)&1: r|=1<<p[i]
    return r
PS=[[perm_state(s,p) for s in range(8)] for p in PERMS]
def canon(tabs):
    # tabs: 3 ints (8-bit truth tables). return True if minimal among permutations
    me=tabs[0]|(tabs[1]<<8)|(tabs[2]<<16)
    for pi,p in enumerate(PERMS[1:],1):
        ps=PS[pi]
        nt=[0,0,0]
        for i in range(3):
            t=tabs[i]; r=0
            for s in range(8):
                if (t>>s)&1: r|=1<<ps[s]
            nt[p[i]]=r
        o=nt[0]|(nt[1]<<8)|(nt[2]<<16)
        if o<me: return False
    return True
def analyse(tabs):
    succ=[0]*8
    for s in range(8):
        m=0
        for i in range(3):
            if ((tabs[i]>>s)&1)!=((s>>i)&1): m|=1<<(s^(1<<i))
        succ[s]=m
    # forward closure
    reach=[(1<<s)|succ[s] for s in range(8)]
    ch=True
    while ch:
        ch=False
        for s in range(8):
            r=reach[s]; n=r
            for t in range(8):
                if (r>>t)&1: n|=reach[t]
            if n!=r: reach[s]=n; ch=True
    atts=set()
    for s in range(8):
        r=reach[s]
        if all(reach[t]==r for t in range(8) if (r>>t)&1): atts.add(r)
    traps=[m for m in SUB if all((succ[s]&~m)==0 for s in range(8) if (m>>s)&1)]
    mins=[m for m in traps if not any(u!=m and (u&~m)==0 for u in traps)]
    maa=sum(1 for a in atts if not any((a&~m)==0 for m in mins))
    multi=max(sum(1 for a in atts if (a&~m)==0) for m in mins)
    return len(atts),len(mins),maa,multi,len(traps)
def work(rng):
    lo,hi=rng
    res={'canon':0,'maa':0,'multi':0,'maa_list':[],'ntraps':{} }
    for idx in range(lo,hi):
        tabs=(idx&255,(idx>>8)&255,(idx>>16)&255)
        if not canon(tabs): continue
        res['canon']+=1
        na,nm,maa,multi,nt=analyse(tabs)
        if maa: res['maa']+=1; res['maa_list'].append(idx)
        if multi>1: res['multi']+=1
        res['ntraps'][nt]=res['ntraps'].get(nt,0)+1
    return res
if __name__=="__main__":
    T=1<<24; step=T//256
    t=time.time()
    with Pool(16) as p: R=p.map(work,[(i,i+step) for i in range(0,T,step)])
    tot={'canon':0,'maa':0,'multi':0}; ml=[]; nt={}
    for r in R:
        for k in tot: tot[k]+=r[k]
        ml+=r['maa_list']
        for k,v in r['ntraps'].items(): nt[k]=nt.get(k,0)+v
    print(tot,time.time()-t); print(sorted(nt.items()))
    import json; json.dump(ml,open('maa3.json','w'))
