import time
from multiprocessing import Pool
from cat3 import canon, analyse
def negself(t,i):
    # exists s with s_i=0: f(s)=1 and f(s|i)=0
    for s in range(8):
        if not (s>>i)&1 and (t>>s)&1 and not (t>>(s|(1<<i)))&1: return True
    return False
def work(r):
    lo,hi=r; c=0; c2=0; c3=0
    for idx in range(lo,hi):
        tabs=(idx&255,(idx>>8)&255,(idx>>16)&255)
        if not all(negself(tabs[i],i) for i in range(3)): continue
        if not canon(tabs): continue
        c+=1
        na,nm,maa,multi,nt=analyse(tabs)
        if nt==1 and na>=2: c2+=1   # root minimal, >=2 attractors
        if nt==1: c3+=1
    return c,c2,c3
if __name__=="__main__":
    T=1<<24; step=T//256; t=time.time()
    with Pool(16) as p: R=p.map(work,[(i,i+step) for i in range(0,T,step)])
    print(sum(r[0] for r in R),sum(r[1] for r in R),sum(r[2] for r in R),time.time()-t)
